import QuickAdd.Lemmas.FilterAdequate
import QuickAdd.Lemmas.SearchWF
import QuickAdd.Lemmas.SearchComplete
/-!
# Equal reachable productions have equal successors (`ExpandRespects` for the concrete configuration)

The hypothesis that `C15.search_complete_partial` left open, restricted to pairs whose expansions both succeed:
* tokens of reachable productions are elements of the one match list, in which pattern id and start offset identify a match
  (`toks_inj`) — so productions that compare equal (`==`) carry the same values element by element (`req_same_vals`);
* windows, rule results and the calendar check depend on the values only;
* the pre-filtered rule set of the *other* lineage contains the rule too (`filter_keeps`, from `FilterAdequate`).
-/
namespace QuickAdd
open Gen

/-! ### the match list identifies its elements by pattern id and start -/
def hereOf (T : Tabs) (r : Rx) (prev : Option Nat) (rest : List Nat) (pos : Nat) : List (Nat × Nat × Caps) :=
  match matchAt T r { prev := prev, rest := rest, pos := pos } with
  | some (e, cs) => [(pos, e, cs)] | none => []

theorem findAllFrom_cons_eq (T : Tabs) (r : Rx) (prev : Option Nat) (x : Nat) (xs : List Nat) (pos : Nat) :
    findAllFrom T r prev (x :: xs) pos = hereOf T r prev (x :: xs) pos ++ findAllFrom T r (some x) xs (pos + 1) := rfl

theorem hereOf_spec (T : Tabs) (r : Rx) (prev : Option Nat) (rest : List Nat) (pos : Nat) :
    ∀ m ∈ hereOf T r prev rest pos, m.1 = pos ∧ ∀ m' ∈ hereOf T r prev rest pos, m' = m := by
  intro m hm
  unfold hereOf at hm ⊢
  split at hm
  · simp at hm; subst hm; exact ⟨rfl, by intro m' hm'; simpa using hm'⟩
  · simp at hm

theorem findAllFrom_start (T : Tabs) (r : Rx) : ∀ (rest : List Nat) (prev : Option Nat) (pos : Nat),
    (∀ m ∈ findAllFrom T r prev rest pos, pos ≤ m.1) ∧
    (∀ m1 ∈ findAllFrom T r prev rest pos, ∀ m2 ∈ findAllFrom T r prev rest pos, m1.1 = m2.1 → m1 = m2) := by
  intro rest
  induction rest with
  | nil =>
    intro prev pos
    simp only [findAllFrom]
    split <;> simp
  | cons x xs ih =>
    intro prev pos
    obtain ⟨ih1, ih2⟩ := ih (some x) (pos + 1)
    rw [findAllFrom_cons_eq]
    have hhere := hereOf_spec T r prev (x :: xs) pos
    constructor
    · intro m hm
      rcases List.mem_append.mp hm with hm | hm
      · rw [(hhere m hm).1]; exact Nat.le_refl _
      · have := ih1 m hm; omega
    · intro m1 h1 m2 h2 he
      rcases List.mem_append.mp h1 with h1 | h1 <;> rcases List.mem_append.mp h2 with h2 | h2
      · exact ((hhere m1 h1).2 m2 h2).symm
      · have := ih1 m2 h2; have := (hhere m1 h1).1; omega
      · have := ih1 m1 h1; have := (hhere m2 h2).1; omega
      · exact ih2 m1 h1 m2 h2 he

theorem table_ids_nodup : (table.map (·.id)).Nodup := by decide

theorem nodup_map_inj {α β : Type} (f : α → β) : ∀ (l : List α), (l.map f).Nodup → ∀ a ∈ l, ∀ b ∈ l, f a = f b → a = b := by
  intro l
  induction l with
  | nil => intro _ a ha; simp at ha
  | cons x xs ih =>
    intro hn a ha b hb he
    simp only [List.map_cons, List.nodup_cons, List.mem_map, not_exists, not_and] at hn
    rcases List.mem_cons.mp ha with ea | ha <;> rcases List.mem_cons.mp hb with eb | hb
    · rw [ea, eb]
    · rw [ea] at he; exact absurd he.symm (hn.1 b hb)
    · rw [eb] at he; exact absurd he (hn.1 a ha)
    · exact ih hn.2 a ha b hb he

/-- two elements of the match list that compare equal are the same match -/
theorem toks_inj (txt : List Nat) (a b : Art) (ha : a ∈ matchRegex txt) (hb : b ∈ matchRegex txt) (h : a.pyEq b = true) : a = b := by
  unfold matchRegex at ha hb
  have ha1 := mem_sortBy _ _ _ ha
  have hb1 := mem_sortBy _ _ _ hb
  simp only [List.mem_flatMap, List.mem_map] at ha1 hb1
  obtain ⟨p1, hp1, m1, hm1, rfl⟩ := ha1
  obtain ⟨p2, hp2, m2, hm2, rfl⟩ := hb1
  obtain ⟨s1, e1, c1⟩ := m1
  obtain ⟨s2, e2, c2⟩ := m2
  simp only [tokOfMatch, Art.pyEq, Bool.and_eq_true, beq_iff_eq] at h
  obtain ⟨⟨hs, _⟩, hid⟩ := h
  have hp : p1 = p2 := nodup_map_inj (·.id) table table_ids_nodup p1 hp1 p2 hp2 hid
  subst hp
  have hm : (s1, e1, c1) = (s2, e2, c2) := by
    unfold findAll at hm1 hm2
    exact (findAllFrom_start rxTabs p1.rx txt none 0).2 _ hm1 _ hm2 hs
  cases hm; rfl

/-! ### invariants of reachable productions (from the initial stack of one text) -/
variable {S : Type}

/-- what every reachable production knows about its lineage -/
structure Lineage (txt : List Nat) (init : List (E Art S)) (p : List Art) (rules : List (String × List Pred)) : Prop where
  ok : ∀ a ∈ p, a.v.Ok
  toks : ∀ a ∈ p, a.isVal = false → a ∈ matchRegex txt
  origin : ∃ e0 ∈ init, rules = e0.rules ∧ Covers e0.prod p
  sigs : ∀ r ∈ rules, r ∈ ruleSigs

theorem applyRule_isVal (rl : String × List Pred) (hrl : rl ∈ ruleSigs) (ts : Ts) (hts : ts.Valid) (args : List Art)
    (hp : (List.zipWith predHolds rl.2 args).all id = true) (hargs : ∀ a ∈ args, a.v.Ok) (x : Art)
    (h : applyRule rl.1 ts args = .ok (some x)) : x.isVal = true := by
  unfold applyRule at h
  cases hr : applyRaw rl.1 ts (args.map (·.v)) with
  | error e => simp [hr, bind, Except.bind] at h
  | ok o =>
    cases o with
    | none => simp [hr, bind, Except.bind, pure, Except.pure] at h
    | some v =>
      simp only [hr, bind, Except.bind, pure, Except.pure] at h
      have hv : v.OkV := by
        unfold applyRaw at hr
        cases hn : RuleId.ofName rl.1 with
        | none => simp [hn, throw, throwThe, MonadExceptOf.throw] at hr
        | some r =>
          simp only [hn] at hr
          refine rules_preserve_okv r ts hts _ ?_ (argsPred_of_window rl hrl r hn args hp) v hr
          intro a ha
          simp only [List.mem_map] at ha
          obtain ⟨b, hb, rfl⟩ := ha
          exact hargs b hb
      split at h
      · simp at h
      · split at h
        · simp at h; subst h; exact hv.isVal _ _
        · simp [throw, throwThe, MonadExceptOf.throw] at h

theorem matchRule_window (seq : List Art) (pat : List Pred) (i : Nat) (h : i ∈ matchRule seq pat) :
    ((seq.drop i).take pat.length).length = pat.length ∧ (List.zipWith predHolds pat ((seq.drop i).take pat.length)).all id = true ∧ pat ≠ [] := by
  have := window_sound seq pat i h
  exact ⟨this.2.1, this.2.2.1, this.2.2.2⟩

theorem lineage_init (sc : Scorer S) (depth num den : Nat) (txt : List Nat) (fuel : Nat) :
    ∀ e ∈ (initialStack sc depth num den txt fuel).1, Lineage txt (initialStack sc depth num den txt fuel).1 e.prod e.rules := by
  intro e he
  refine ⟨(initialStack_ok sc depth num den txt fuel e he).1, ?_, ⟨e, he, rfl, Covers.refl _⟩, (initialStack_ok sc depth num den txt fuel e he).2⟩
  intro a ha _
  have he' := he
  unfold initialStack at he'
  simp only at he'
  have h3 := mem_sortE _ _ _ (List.mem_filter.mp (mem_trunc _ _ _ he')).1
  simp only [List.mem_map] at h3
  obtain ⟨s, hs, rfl⟩ := h3
  exact regexStack_mem txt _ fuel s hs a ha

theorem lineage_reach (sc : Scorer S) (ts : Ts) (hts : ts.Valid) (depth : Nat) (txt : List Nat) (init : List (E Art S))
    (hinit : ∀ e ∈ init, Lineage txt init e.prod e.rules) (p : List Art) (t : List String) (rules : List (String × List Pred))
    (hr : ReachE (mkCfg sc ts depth txt) init p t rules) : Lineage txt init p rules := by
  induction hr with
  | init hm => exact hinit _ hm
  | @step p t rules succs p' t' n _ hexp hmem ih =>
    obtain ⟨r, hrm, i, hi, x, hx, e⟩ := expand_sound ts rules p t succs hexp _ hmem
    have e1 : p' = p.take i ++ x :: p.drop (i + r.2.length) := by
      have := congrArg Prod.fst e; simpa using this
    obtain ⟨hwl, hwp, hne⟩ := matchRule_window p r.2 i hi
    have hwin : ∀ b ∈ (p.drop i).take r.2.length, b.v.Ok := fun b hb => ih.ok b (List.mem_of_mem_drop (List.mem_of_mem_take hb))
    have hxv := applyRule_isVal r (ih.sigs r hrm) ts hts _ hwp hwin x hx
    have hxo := applyRule_ok r (ih.sigs r hrm) ts hts _ hwp hwin x hx
    subst e1
    refine ⟨?_, ?_, ?_, ih.sigs⟩
    · intro a ha
      simp only [List.mem_append, List.mem_cons] at ha
      rcases ha with ha | rfl | ha
      · exact ih.ok a (List.mem_of_mem_take ha)
      · exact hxo
      · exact ih.ok a (List.mem_of_mem_drop ha)
    · intro a ha hv
      simp only [List.mem_append, List.mem_cons] at ha
      rcases ha with ha | rfl | ha
      · exact ih.toks a (List.mem_of_mem_take ha) hv
      · rw [hxv] at hv; cases hv
      · exact ih.toks a (List.mem_of_mem_drop ha) hv
    · obtain ⟨e0, he0, hrule, hcov⟩ := ih.origin
      refine ⟨e0, he0, hrule, ?_⟩
      have hsplit : p = p.take i ++ (p.drop i).take r.2.length ++ p.drop (i + r.2.length) := by
        rw [List.append_assoc]
        conv => lhs; rw [← List.take_append_drop i p]
        congr 1
        conv => lhs; rw [← List.take_append_drop r.2.length (p.drop i)]
        congr 1
        rw [List.drop_drop]
      rw [hsplit] at hcov
      refine Covers.replace _ _ _ _ x ?_ hxv hcov
      intro e'
      rw [e'] at hwl
      simp at hwl
      exact hne (List.length_eq_zero_iff.mp hwl.symm)

/-! ### productions that compare equal carry the same values -/
theorem pyEq_same_v (txt : List Nat) (a b : Art) (ha : a.isVal = false → a ∈ matchRegex txt) (hb : b.isVal = false → b ∈ matchRegex txt)
    (h : a.pyEq b = true) : a.v = b.v := by
  cases hav : a.isVal with
  | true =>
    have hbv : b.isVal = true := by rw [← C18.pyEq_isVal a b h]; exact hav
    exact (C18.art_eq_iff a b hav hbv).mp h
  | false =>
    have hbv : b.isVal = false := by rw [← C18.pyEq_isVal a b h]; exact hav
    rw [toks_inj txt a b (ha hav) (hb hbv) h]

theorem req_same_vals (txt : List Nat) : ∀ (p1 p2 : List Art),
    (∀ a ∈ p1, a.isVal = false → a ∈ matchRegex txt) → (∀ a ∈ p2, a.isVal = false → a ∈ matchRegex txt) →
    listEqBy Art.pyEq p1 p2 = true → p1.map (·.v) = p2.map (·.v) := by
  intro p1
  induction p1 with
  | nil => intro p2 _ _ h; cases p2 <;> simp_all [listEqBy]
  | cons a as ih =>
    intro p2 h1 h2 h
    cases p2 with
    | nil => simp [listEqBy] at h
    | cons b bs =>
      simp only [listEqBy, Bool.and_eq_true] at h
      simp only [List.map_cons, List.cons.injEq]
      exact ⟨pyEq_same_v txt a b (h1 a (by simp)) (h2 b (by simp)) h.1,
             ih bs (fun x hx => h1 x (List.mem_cons_of_mem _ hx)) (fun x hx => h2 x (List.mem_cons_of_mem _ hx)) h.2⟩

/-! ### windows, rule results and the splice depend on the values only -/
theorem predHolds_congr (q : Pred) (a b : Art) (h : a.v = b.v) : predHolds q a = predHolds q b := by
  unfold predHolds; rw [h]

theorem zipWith_pred_congr (pat : List Pred) : ∀ (w1 w2 : List Art), w1.map (·.v) = w2.map (·.v) →
    List.zipWith predHolds pat w1 = List.zipWith predHolds pat w2 := by
  induction pat with
  | nil => intro w1 w2 _; simp
  | cons q qs ih =>
    intro w1 w2 h
    cases w1 with
    | nil => cases w2 with
      | nil => rfl
      | cons _ _ => simp at h
    | cons a as => cases w2 with
      | nil => simp at h
      | cons b bs =>
        simp only [List.map_cons, List.cons.injEq] at h
        simp only [List.zipWith_cons_cons, predHolds_congr q a b h.1, ih as bs h.2]

theorem map_v_window (p1 p2 : List Art) (h : p1.map (·.v) = p2.map (·.v)) (i n : Nat) :
    ((p1.drop i).take n).map (·.v) = ((p2.drop i).take n).map (·.v) := by
  rw [List.map_take, List.map_drop, List.map_take, List.map_drop, h]

theorem matchRule_congr (p1 p2 : List Art) (h : p1.map (·.v) = p2.map (·.v)) (pat : List Pred) : matchRule p1 pat = matchRule p2 pat := by
  have hl : p1.length = p2.length := by have := congrArg List.length h; simpa using this
  unfold matchRule
  split
  · rfl
  · rw [hl]
    apply List.filter_congr
    intro i _
    have hw := map_v_window p1 p2 h i pat.length
    have hwl : ((p1.drop i).take pat.length).length = ((p2.drop i).take pat.length).length := by
      have := congrArg List.length hw; simpa using this
    simp only [hwl, zipWith_pred_congr pat _ _ hw]

theorem applyRule_congr (name : String) (ts : Ts) (w1 w2 : List Art) (h : w1.map (·.v) = w2.map (·.v)) (x1 : Art)
    (h1 : applyRule name ts w1 = .ok (some x1)) : ∃ x2, applyRule name ts w2 = .ok (some x2) ∧ x2.v = x1.v := by
  unfold applyRule at h1 ⊢
  rw [← h]
  cases hr : applyRaw name ts (w1.map (·.v)) with
  | error e => simp [hr, bind, Except.bind] at h1
  | ok o =>
    cases o with
    | none => simp [hr, bind, Except.bind, pure, Except.pure] at h1
    | some v =>
      simp only [hr, bind, Except.bind, pure, Except.pure] at h1 ⊢
      cases hc : valCalOk v with
      | false => simp [hc] at h1
      | true =>
        simp only [hc, Bool.not_true, Bool.false_eq_true, if_false] at h1 ⊢
        have hl : w1.length = w2.length := by have := congrArg List.length h; simpa using this
        cases w2 with
        | nil =>
          cases w1 with
          | nil => simp [throw, throwThe, MonadExceptOf.throw] at h1
          | cons _ _ => simp at hl
        | cons b bs =>
          cases w1 with
          | nil => simp at hl
          | cons a as =>
            have hlast : ∃ z, (b :: bs).getLast? = some z := by
              cases hz : (b :: bs).getLast? with
              | none => simp at hz
              | some z => exact ⟨z, rfl⟩
            obtain ⟨z, hz⟩ := hlast
            have hlast1 : ∃ z, (a :: as).getLast? = some z := by
              cases hz : (a :: as).getLast? with
              | none => simp at hz
              | some z => exact ⟨z, rfl⟩
            obtain ⟨z1, hz1⟩ := hlast1
            simp only [List.head?_cons, hz1] at h1
            simp only [List.head?_cons, hz]
            simp at h1; subst h1
            exact ⟨_, rfl, rfl⟩

/-! ### everything a successful expansion contains -/
theorem foldOpt_complete {β γ : Type} (g : β → Except PyErr (Option γ)) :
    ∀ (ws : List β) (acc out : List γ), foldOpt g ws acc = Except.ok out →
      (∀ s ∈ acc, s ∈ out) ∧ ∀ i ∈ ws, ∀ s, g i = .ok (some s) → s ∈ out := by
  intro ws
  induction ws with
  | nil => intro acc out h; simp [foldOpt] at h; subst h; exact ⟨fun s hs => hs, by intro i hi; simp at hi⟩
  | cons i is ih =>
    intro acc out h
    simp only [foldOpt] at h
    cases hr : g i with
    | error e => simp [hr] at h
    | ok r =>
      cases r with
      | none =>
        simp only [hr] at h
        obtain ⟨i1, i2⟩ := ih acc out h
        refine ⟨i1, ?_⟩
        intro j hj s hs
        rcases List.mem_cons.mp hj with rfl | hj
        · rw [hr] at hs; simp at hs
        · exact i2 j hj s hs
      | some x =>
        simp only [hr] at h
        obtain ⟨i1, i2⟩ := ih _ out h
        refine ⟨fun s hs => i1 s (List.mem_append_left _ hs), ?_⟩
        intro j hj s hs
        rcases List.mem_cons.mp hj with rfl | hj
        · rw [hr] at hs; simp at hs; subst hs; exact i1 _ (by simp)
        · exact i2 j hj s hs

theorem foldAppend_complete {β γ : Type} (g : β → Except PyErr (List γ)) :
    ∀ (rs : List β) (acc out : List γ), foldAppend g rs acc = Except.ok out →
      (∀ s ∈ acc, s ∈ out) ∧ ∀ r ∈ rs, ∃ outs, g r = .ok outs ∧ ∀ s ∈ outs, s ∈ out := by
  intro rs
  induction rs with
  | nil => intro acc out h; simp [foldAppend] at h; subst h; exact ⟨fun s hs => hs, by intro r hr; simp at hr⟩
  | cons r rs ih =>
    intro acc out h
    simp only [foldAppend] at h
    cases hr : g r with
    | error e => simp [hr] at h
    | ok outs =>
      simp only [hr] at h
      obtain ⟨i1, i2⟩ := ih _ out h
      refine ⟨fun s hs => i1 s (List.mem_append_left _ hs), ?_⟩
      intro r' hr'
      rcases List.mem_cons.mp hr' with rfl | hr'
      · exact ⟨outs, hr, fun s hs => i1 s (List.mem_append_right _ hs)⟩
      · exact i2 r' hr'

theorem expand_complete (ts : Ts) (rules : List (String × List Pred)) (prod : List Art) (trace : List String)
    (out : List (List Art × List String × Nat)) (h : expandArts ts rules prod trace = .ok out)
    (r : String × List Pred) (hr : r ∈ rules) (i : Nat) (hi : i ∈ matchRule prod r.2) (x : Art)
    (hx : applyRule r.1 ts ((prod.drop i).take r.2.length) = .ok (some x)) :
    (prod.take i ++ x :: prod.drop (i + r.2.length), trace ++ [r.1], coverOf (prod.take i ++ x :: prod.drop (i + r.2.length))) ∈ out := by
  have h' : foldAppend (fun r : String × List Pred => expandRule ts r.1 r.2 prod trace) rules [] = .ok out := h
  obtain ⟨outs, ho, hsub⟩ := (foldAppend_complete _ rules [] out h').2 r hr
  have ho' : foldOpt (applyAt ts r.1 r.2 prod trace) (matchRule prod r.2) [] = .ok outs := ho
  apply hsub
  refine (foldOpt_complete _ _ [] outs ho').2 i hi _ ?_
  unfold applyAt
  simp [hx, bind, Except.bind, pure, Except.pure]

/-! ### the pre-filter of the other lineage kept the rule -/
theorem filter_keeps (s p : List Art) (hc : Covers s p) (r : String × List Pred) (hr : r ∈ ruleSigs) (i : Nat) (hi : i ∈ matchRule p r.2) :
    r ∈ filterRules s := by
  obtain ⟨hwl, hall, _⟩ := matchRule_window p r.2 i hi
  unfold filterRules
  refine List.mem_filter.mpr ⟨hr, ?_⟩
  exact smSpec_seqMatchEx _ _ _ (by omega) (covers_window_smSpec r.2 s p hc i hwl hall)

theorem initialStack_rules (sc : Scorer S) (depth num den : Nat) (txt : List Nat) (fuel : Nat) :
    ∀ e ∈ (initialStack sc depth num den txt fuel).1, e.rules = filterRules e.prod := by
  intro e he
  unfold initialStack at he
  simp only at he
  have h3 := mem_sortE _ _ _ (List.mem_filter.mp (mem_trunc _ _ _ he)).1
  simp only [List.mem_map] at h3
  obtain ⟨s, _, rfl⟩ := h3
  rfl

/-! ### element-wise comparison of spliced productions -/
theorem listEqBy_take (eq : Art → Art → Bool) : ∀ (l m : List Art) (n : Nat), listEqBy eq l m = true → listEqBy eq (l.take n) (m.take n) = true := by
  intro l
  induction l with
  | nil => intro m n h; cases m <;> simp_all [listEqBy]
  | cons a as ih =>
    intro m n h
    cases m with
    | nil => simp [listEqBy] at h
    | cons b bs =>
      cases n with
      | zero => simp [listEqBy]
      | succ n =>
        simp only [listEqBy, Bool.and_eq_true] at h
        simp only [List.take_succ_cons, listEqBy, Bool.and_eq_true]
        exact ⟨h.1, ih bs n h.2⟩

theorem listEqBy_drop (eq : Art → Art → Bool) : ∀ (l m : List Art) (n : Nat), listEqBy eq l m = true → listEqBy eq (l.drop n) (m.drop n) = true := by
  intro l
  induction l with
  | nil => intro m n h; cases m <;> simp_all [listEqBy]
  | cons a as ih =>
    intro m n h
    cases m with
    | nil => simp [listEqBy] at h
    | cons b bs =>
      cases n with
      | zero => simpa using h
      | succ n =>
        simp only [listEqBy, Bool.and_eq_true] at h
        simp only [List.drop_succ_cons]
        exact ih bs n h.2

theorem listEqBy_append (eq : Art → Art → Bool) : ∀ (l1 m1 l2 m2 : List Art), listEqBy eq l1 m1 = true → listEqBy eq l2 m2 = true →
    listEqBy eq (l1 ++ l2) (m1 ++ m2) = true := by
  intro l1
  induction l1 with
  | nil => intro m1 l2 m2 h1 h2; cases m1 <;> simp_all [listEqBy]
  | cons a as ih =>
    intro m1 l2 m2 h1 h2
    cases m1 with
    | nil => simp [listEqBy] at h1
    | cons b bs =>
      simp only [listEqBy, Bool.and_eq_true] at h1
      simp only [List.cons_append, listEqBy, Bool.and_eq_true]
      exact ⟨h1.1, ih bs l2 m2 h1.2 h2⟩

/-- **equal reachable productions have equal successors**, although they may have inherited different pre-filtered rule sets
    and carry values with different spans (the hypothesis of `complete_stream`, for the concrete configuration) -/
theorem expandRespects_concrete (sc : Scorer S) (ts : Ts) (hts : ts.Valid) (depth num den : Nat) (txt : List Nat) (fuel : Nat) (d : Nat) :
    ExpandRespects (mkCfg sc ts d txt) (initialStack sc depth num den txt fuel).1 := by
  intro r1 p1 t1 r2 p2 t2 s1 s2 hr1 hr2 hreq h1 h2 n hn
  have hinit := lineage_init sc depth num den txt fuel
  have L1 := lineage_reach sc ts hts d txt _ hinit p1 t1 r1 hr1
  have L2 := lineage_reach sc ts hts d txt _ hinit p2 t2 r2 hr2
  have hv : p1.map (·.v) = p2.map (·.v) := req_same_vals txt p1 p2 L1.toks L2.toks hreq
  have h1' : expandArts ts r1 p1 t1 = .ok s1 := h1
  have h2' : expandArts ts r2 p2 t2 = .ok s2 := h2
  obtain ⟨r, hrr, i, hi, x1, hx1, e⟩ := expand_sound ts r1 p1 t1 s1 h1' n hn
  -- the rule is registered, and the other lineage's pre-filter kept it
  obtain ⟨e1, he1, hrule1, _⟩ := L1.origin
  obtain ⟨e2, he2, hrule2, hcov2⟩ := L2.origin
  have hsig : r ∈ ruleSigs := by
    rw [hrule1, initialStack_rules sc depth num den txt fuel e1 he1] at hrr
    exact (List.mem_filter.mp hrr).1
  have hi2 : i ∈ matchRule p2 r.2 := by rw [← matchRule_congr p1 p2 hv r.2]; exact hi
  have hr2mem : r ∈ r2 := by
    rw [hrule2, initialStack_rules sc depth num den txt fuel e2 he2]
    exact filter_keeps e2.prod p2 hcov2 r hsig i hi2
  -- the same rule on the same values gives the same value
  obtain ⟨x2, hx2, hxv⟩ := applyRule_congr r.1 ts _ _ (map_v_window p1 p2 hv i r.2.length) x1 hx1
  have hm := expand_complete ts r2 p2 t2 s2 h2' r hr2mem i hi2 x2 hx2
  refine ⟨_, hm, ?_⟩
  have en : n.1 = p1.take i ++ x1 :: p1.drop (i + r.2.length) := by
    have := congrArg Prod.fst e; simpa using this
  show listEqBy Art.pyEq n.1 _ = true
  rw [en]
  have hwin1 : ∀ b ∈ (p1.drop i).take r.2.length, b.v.Ok := fun b hb => L1.ok b (List.mem_of_mem_drop (List.mem_of_mem_take hb))
  have hwin2 : ∀ b ∈ (p2.drop i).take r.2.length, b.v.Ok := fun b hb => L2.ok b (List.mem_of_mem_drop (List.mem_of_mem_take hb))
  have hx1v := applyRule_isVal r hsig ts hts _ (matchRule_window p1 r.2 i hi).2.1 hwin1 x1 hx1
  have hx2v := applyRule_isVal r hsig ts hts _ (matchRule_window p2 r.2 i hi2).2.1 hwin2 x2 hx2
  refine listEqBy_append _ _ _ _ _ (listEqBy_take _ _ _ i hreq) ?_
  simp only [listEqBy, Bool.and_eq_true]
  exact ⟨(C18.art_eq_iff x1 x2 hx1v hx2v).mpr hxv.symm, listEqBy_drop _ _ _ _ hreq⟩

end QuickAdd
