import QuickAdd.Lemmas.RegexGroups
/-!
# Groups every match sets (C01: the token readers find the groups they read)

`mustAny S r`: on every successful path through `r` at least one group with an index in `S` is recorded (sequence: one of the
parts; alternation: both branches; optional / starred parts and look-arounds guarantee nothing).  `mtc_must`: the matcher's
result then contains a capture of some group in `S` — by induction over the matcher's fuel, with the continuation's
guarantee as a parameter.
-/
namespace QuickAdd

def mustAny (S : List Nat) : Rx → Bool
  | .grp i a => S.contains i || mustAny S a
  | .seq a b => mustAny S a || mustAny S b
  | .alt a b => mustAny S a && mustAny S b
  | .plus a => mustAny S a
  | _ => false

def HasCap (S : List Nat) (cs : Caps) : Prop := ∃ c ∈ cs, c.1 ∈ S

/-- what a continuation guarantees about its result: it keeps the captures it was given, and `Q` holds of the result -/
def KGuar (k : K) (Q : Caps → Prop) : Prop := ∀ st cs p out, k st cs = some (p, out) → (∀ c ∈ cs, c ∈ out) ∧ Q out

theorem mtc_keep (T : Tabs) (Q : Caps → Prop) : ∀ (f : Nat) (r : Rx) (st : St) (cs : Caps) (k : K), KGuar k Q →
    ∀ p out, mtc T f r st cs k = some (p, out) → (∀ c ∈ cs, c ∈ out) ∧ Q out := by
  intro f
  induction f with
  | zero => intro r st cs k _ p out h; simp [mtc] at h
  | succ f ih =>
    intro r st cs k hk p out h
    cases r with
    | eps => simp only [mtc] at h; exact hk _ _ _ _ h
    | lit alts =>
      simp only [mtc] at h
      split at h
      · split at h
        · exact hk _ _ _ _ h
        · cases h
      · cases h
    | cls neg items =>
      simp only [mtc] at h
      split at h
      · split at h
        · exact hk _ _ _ _ h
        · cases h
      · cases h
    | seq a b =>
      simp only [mtc] at h
      exact ih a st cs _ (fun st' cs' p' out' h' => ih b st' cs' k hk p' out' h') p out h
    | alt a b =>
      simp only [mtc] at h
      split at h
      · rename_i e he; cases h; exact ih a st cs k hk _ _ he
      · exact ih b st cs k hk p out h
    | opt a =>
      simp only [mtc] at h
      split at h
      · rename_i e he; cases h; exact ih a st cs k hk _ _ he
      · exact hk _ _ _ _ h
    | star a =>
      simp only [mtc] at h
      split at h
      · rename_i e he; cases h
        refine ih a st cs _ ?_ _ _ he
        intro st' cs' p' out' h'
        simp only at h'
        split at h'
        · cases h'
        · exact ih (.star a) st' cs' k hk p' out' h'
      · exact hk _ _ _ _ h
    | plus a =>
      simp only [mtc] at h
      exact ih a st cs _ (fun st' cs' p' out' h' => ih (.star a) st' cs' k hk p' out' h') p out h
    | grp i a =>
      simp only [mtc] at h
      have := ih a st cs (fun st' cs' => k st' ((i, st.pos, st'.pos) :: cs')) ?_ p out h
      · exact this
      · intro st' cs' p' out' h'
        obtain ⟨h1, h2⟩ := hk _ _ _ _ h'
        exact ⟨fun c hc => h1 c (List.mem_cons_of_mem _ hc), h2⟩
    | nla a =>
      simp only [mtc] at h
      split at h
      · cases h
      · exact hk _ _ _ _ h
    | nlb a =>
      simp only [mtc] at h
      split at h
      · exact hk _ _ _ _ h
      · split at h
        · cases h
        · exact hk _ _ _ _ h
    | wordb =>
      simp only [mtc] at h
      simp at h
      exact hk _ _ _ _ h.2

theorem kguar_true_of (T : Tabs) (f : Nat) (r : Rx) (k : K) (hk : KGuar k (fun _ => True)) :
    KGuar (fun st' cs' => mtc T f r st' cs' k) (fun _ => True) :=
  fun st cs p out h => mtc_keep T (fun _ => True) f r st cs k hk p out h

/-- **a pattern with `mustAny S` records a group of `S` on every match** -/
theorem mtc_must (T : Tabs) (S : List Nat) : ∀ (f : Nat) (r : Rx) (st : St) (cs : Caps) (k : K), KGuar k (fun _ => True) →
    mustAny S r = true → ∀ p out, mtc T f r st cs k = some (p, out) → HasCap S out := by
  intro f
  induction f with
  | zero => intro r st cs k _ _ p out h; simp [mtc] at h
  | succ f ih =>
    intro r st cs k hk hm p out h
    cases r with
    | grp i a =>
      simp only [mustAny, Bool.or_eq_true] at hm
      simp only [mtc] at h
      rcases hm with hi | ha
      · -- the group itself: its capture is put in front of what the continuation keeps
        have hk' : KGuar (fun st' cs' => k st' ((i, st.pos, st'.pos) :: cs')) (HasCap S) := by
          intro st' cs' p' out' h'
          obtain ⟨h1, _⟩ := hk _ _ _ _ h'
          exact ⟨fun c hc => h1 c (List.mem_cons_of_mem _ hc), ⟨_, h1 _ List.mem_cons_self, by simpa using hi⟩⟩
        exact (mtc_keep T (HasCap S) f a st cs _ hk' p out h).2
      · refine ih a st cs _ ?_ ha p out h
        intro st' cs' p' out' h'
        obtain ⟨h1, _⟩ := hk _ _ _ _ h'
        exact ⟨fun c hc => h1 c (List.mem_cons_of_mem _ hc), trivial⟩
    | seq a b =>
      simp only [mustAny, Bool.or_eq_true] at hm
      simp only [mtc] at h
      rcases hm with ha | hb
      · exact ih a st cs _ (kguar_true_of T f b k hk) ha p out h
      · have hk' : KGuar (fun st' cs' => mtc T f b st' cs' k) (HasCap S) := by
          intro st' cs' p' out' h'
          exact ⟨(mtc_keep T (fun _ => True) f b st' cs' k hk p' out' h').1, ih b st' cs' k hk hb p' out' h'⟩
        exact (mtc_keep T (HasCap S) f a st cs _ hk' p out h).2
    | alt a b =>
      simp only [mustAny, Bool.and_eq_true] at hm
      simp only [mtc] at h
      split at h
      · rename_i e he; cases h; exact ih a st cs k hk hm.1 _ _ he
      · exact ih b st cs k hk hm.2 p out h
    | plus a =>
      simp only [mustAny] at hm
      simp only [mtc] at h
      exact ih a st cs _ (kguar_true_of T f (.star a) k hk) hm p out h
    | eps => simp [mustAny] at hm
    | lit alts => simp [mustAny] at hm
    | cls neg items => simp [mustAny] at hm
    | opt a => simp [mustAny] at hm
    | star a => simp [mustAny] at hm
    | nla a => simp [mustAny] at hm
    | nlb a => simp [mustAny] at hm
    | wordb => simp [mustAny] at hm

theorem matchAt_must (T : Tabs) (S : List Nat) (r : Rx) (st : St) (hm : mustAny S r = true) (e : Nat) (cs : Caps)
    (h : matchAt T r st = some (e, cs)) : HasCap S cs := by
  unfold matchAt at h
  refine mtc_must T S _ r st [] _ ?_ hm e cs h
  intro st' cs' p out h'
  simp only [Option.some.injEq, Prod.mk.injEq] at h'
  obtain ⟨_, rfl⟩ := h'
  exact ⟨fun c hc => hc, trivial⟩

theorem findAllFrom_must (T : Tabs) (S : List Nat) (r : Rx) (hm : mustAny S r = true) : ∀ (rest : List Nat) (prev : Option Nat) (pos : Nat),
    ∀ m ∈ findAllFrom T r prev rest pos, HasCap S m.2.2 := by
  intro rest
  induction rest with
  | nil =>
    intro prev pos m hmem
    simp only [findAllFrom] at hmem
    split at hmem
    · rename_i e cs he
      simp at hmem; subst hmem
      exact matchAt_must T S r _ hm e cs he
    · simp at hmem
  | cons x xs ih =>
    intro prev pos m hmem
    simp only [findAllFrom, List.mem_append] at hmem
    rcases hmem with h1 | h2
    · split at h1
      · rename_i e cs he
        simp at h1; subst h1
        exact matchAt_must T S r _ hm e cs he
      · simp at h1
    · exact ih _ _ m h2

theorem findAll_must (T : Tabs) (S : List Nat) (r : Rx) (hm : mustAny S r = true) (txt : List Nat) (m : Nat × Nat × Caps)
    (h : m ∈ findAll T r txt) : HasCap S m.2.2 := findAllFrom_must T S r hm txt none 0 m h

end QuickAdd
