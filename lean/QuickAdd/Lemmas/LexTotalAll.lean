import QuickAdd.Lemmas.LexTotal
import QuickAdd.Lemmas.RulesTotalAll
/-! One lemma per token reader (generated text), then the statement for all eleven. -/
namespace QuickAdd
open Gen

theorem pred_regex_id (id : Nat) (a : Art) (k : Tok) (h : predHolds (.regex id) a = true) (hv : a.v = .tok k) : k.id = id := by
  unfold predHolds at h
  simp only [hv] at h
  simpa using h

theorem name_ruleDOM1 : RuleId.nameOf .ruleDOM1 = "ruleDOM1" := by decide +kernel
theorem sig_ruleDOM1 : ∀ r ∈ ruleSigs, r.1 = "ruleDOM1" → r.2 = [.regex 108] := by decide +kernel

theorem applyId_lex_ruleDOM1 (ts : Ts) (hts : TsOk ts) (txt : List Nat) (args : List Art)
    (hp : (List.zipWith predHolds [.regex 108] args).all id = true) (hl : args.length = 1)
    (htok : ∀ a ∈ args, a ∈ matchRegex txt) (hint : ∀ a ∈ args, ∀ k, a.v = .tok k → TokInt k) :
    ∃ o, applyId .ruleDOM1 ts (args.map (·.v)) = .ok o := by
  rcases args with _ | ⟨a1, _ | ⟨x, rest⟩⟩ <;> simp at hl
  simp only [List.zipWith, List.all_cons, List.all_nil, id, Bool.and_true] at hp
  obtain ⟨k1, hv1⟩ := pred_regex _ a1 hp
  have hid := pred_regex_id _ a1 k1 hp hv1
  simp only [List.map, hv1]
  exact ruleDOM1_total _ (hint a1 (by simp) k1 hv1) (group_present 108 "day" req_table.1 txt a1 (htok a1 (by simp)) k1 hv1 hid)

theorem name_ruleDOM2 : RuleId.nameOf .ruleDOM2 = "ruleDOM2" := by decide +kernel
theorem sig_ruleDOM2 : ∀ r ∈ ruleSigs, r.1 = "ruleDOM2" → r.2 = [.regex 110] := by decide +kernel

theorem applyId_lex_ruleDOM2 (ts : Ts) (hts : TsOk ts) (txt : List Nat) (args : List Art)
    (hp : (List.zipWith predHolds [.regex 110] args).all id = true) (hl : args.length = 1)
    (htok : ∀ a ∈ args, a ∈ matchRegex txt) (hint : ∀ a ∈ args, ∀ k, a.v = .tok k → TokInt k) :
    ∃ o, applyId .ruleDOM2 ts (args.map (·.v)) = .ok o := by
  rcases args with _ | ⟨a1, _ | ⟨x, rest⟩⟩ <;> simp at hl
  simp only [List.zipWith, List.all_cons, List.all_nil, id, Bool.and_true] at hp
  obtain ⟨k1, hv1⟩ := pred_regex _ a1 hp
  have hid := pred_regex_id _ a1 k1 hp hv1
  simp only [List.map, hv1]
  exact ruleDOM2_total _ (hint a1 (by simp) k1 hv1) (group_present 110 "day" req_table.2.1 txt a1 (htok a1 (by simp)) k1 hv1 hid)

theorem name_ruleMonthOrdinal : RuleId.nameOf .ruleMonthOrdinal = "ruleMonthOrdinal" := by decide +kernel
theorem sig_ruleMonthOrdinal : ∀ r ∈ ruleSigs, r.1 = "ruleMonthOrdinal" → r.2 = [.regex 109] := by decide +kernel

theorem applyId_lex_ruleMonthOrdinal (ts : Ts) (hts : TsOk ts) (txt : List Nat) (args : List Art)
    (hp : (List.zipWith predHolds [.regex 109] args).all id = true) (hl : args.length = 1)
    (htok : ∀ a ∈ args, a ∈ matchRegex txt) (hint : ∀ a ∈ args, ∀ k, a.v = .tok k → TokInt k) :
    ∃ o, applyId .ruleMonthOrdinal ts (args.map (·.v)) = .ok o := by
  rcases args with _ | ⟨a1, _ | ⟨x, rest⟩⟩ <;> simp at hl
  simp only [List.zipWith, List.all_cons, List.all_nil, id, Bool.and_true] at hp
  obtain ⟨k1, hv1⟩ := pred_regex _ a1 hp
  have hid := pred_regex_id _ a1 k1 hp hv1
  simp only [List.map, hv1]
  exact ruleMonthOrdinal_total _ (hint a1 (by simp) k1 hv1) (group_present 109 "month" req_table.2.2.1 txt a1 (htok a1 (by simp)) k1 hv1 hid)

theorem name_ruleYear : RuleId.nameOf .ruleYear = "ruleYear" := by decide +kernel
theorem sig_ruleYear : ∀ r ∈ ruleSigs, r.1 = "ruleYear" → r.2 = [.regex 111] := by decide +kernel

theorem applyId_lex_ruleYear (ts : Ts) (hts : TsOk ts) (txt : List Nat) (args : List Art)
    (hp : (List.zipWith predHolds [.regex 111] args).all id = true) (hl : args.length = 1)
    (htok : ∀ a ∈ args, a ∈ matchRegex txt) (hint : ∀ a ∈ args, ∀ k, a.v = .tok k → TokInt k) :
    ∃ o, applyId .ruleYear ts (args.map (·.v)) = .ok o := by
  rcases args with _ | ⟨a1, _ | ⟨x, rest⟩⟩ <;> simp at hl
  simp only [List.zipWith, List.all_cons, List.all_nil, id, Bool.and_true] at hp
  obtain ⟨k1, hv1⟩ := pred_regex _ a1 hp
  have hid := pred_regex_id _ a1 k1 hp hv1
  simp only [List.map, hv1]
  exact ruleYear_total ts _ (hint a1 (by simp) k1 hv1) (group_present 111 "year" req_table.2.2.2.1 txt a1 (htok a1 (by simp)) k1 hv1 hid)

theorem name_ruleHHMMmilitary : RuleId.nameOf .ruleHHMMmilitary = "ruleHHMMmilitary" := by decide +kernel
theorem sig_ruleHHMMmilitary : ∀ r ∈ ruleSigs, r.1 = "ruleHHMMmilitary" → r.2 = [.regex 127] := by decide +kernel

theorem applyId_lex_ruleHHMMmilitary (ts : Ts) (hts : TsOk ts) (txt : List Nat) (args : List Art)
    (hp : (List.zipWith predHolds [.regex 127] args).all id = true) (hl : args.length = 1)
    (htok : ∀ a ∈ args, a ∈ matchRegex txt) (hint : ∀ a ∈ args, ∀ k, a.v = .tok k → TokInt k) :
    ∃ o, applyId .ruleHHMMmilitary ts (args.map (·.v)) = .ok o := by
  rcases args with _ | ⟨a1, _ | ⟨x, rest⟩⟩ <;> simp at hl
  simp only [List.zipWith, List.all_cons, List.all_nil, id, Bool.and_true] at hp
  obtain ⟨k1, hv1⟩ := pred_regex _ a1 hp
  have hid := pred_regex_id _ a1 k1 hp hv1
  simp only [List.map, hv1]
  exact ruleHHMMmilitary_total ts hts _ (hint a1 (by simp) k1 hv1) (group_present 127 "hour" req_table.2.2.2.2.1 txt a1 (htok a1 (by simp)) k1 hv1 hid)

theorem name_ruleHHMM : RuleId.nameOf .ruleHHMM = "ruleHHMM" := by decide +kernel
theorem sig_ruleHHMM : ∀ r ∈ ruleSigs, r.1 = "ruleHHMM" → r.2 = [.regex 128] := by decide +kernel

theorem applyId_lex_ruleHHMM (ts : Ts) (hts : TsOk ts) (txt : List Nat) (args : List Art)
    (hp : (List.zipWith predHolds [.regex 128] args).all id = true) (hl : args.length = 1)
    (htok : ∀ a ∈ args, a ∈ matchRegex txt) (hint : ∀ a ∈ args, ∀ k, a.v = .tok k → TokInt k) :
    ∃ o, applyId .ruleHHMM ts (args.map (·.v)) = .ok o := by
  rcases args with _ | ⟨a1, _ | ⟨x, rest⟩⟩ <;> simp at hl
  simp only [List.zipWith, List.all_cons, List.all_nil, id, Bool.and_true] at hp
  obtain ⟨k1, hv1⟩ := pred_regex _ a1 hp
  have hid := pred_regex_id _ a1 k1 hp hv1
  simp only [List.map, hv1]
  exact ruleHHMM_total _ (hint a1 (by simp) k1 hv1) (group_present 128 "hour" req_table.2.2.2.2.2.1 txt a1 (htok a1 (by simp)) k1 hv1 hid)

theorem name_ruleHHOClock : RuleId.nameOf .ruleHHOClock = "ruleHHOClock" := by decide +kernel
theorem sig_ruleHHOClock : ∀ r ∈ ruleSigs, r.1 = "ruleHHOClock" → r.2 = [.regex 129] := by decide +kernel

theorem applyId_lex_ruleHHOClock (ts : Ts) (hts : TsOk ts) (txt : List Nat) (args : List Art)
    (hp : (List.zipWith predHolds [.regex 129] args).all id = true) (hl : args.length = 1)
    (htok : ∀ a ∈ args, a ∈ matchRegex txt) (hint : ∀ a ∈ args, ∀ k, a.v = .tok k → TokInt k) :
    ∃ o, applyId .ruleHHOClock ts (args.map (·.v)) = .ok o := by
  rcases args with _ | ⟨a1, _ | ⟨x, rest⟩⟩ <;> simp at hl
  simp only [List.zipWith, List.all_cons, List.all_nil, id, Bool.and_true] at hp
  obtain ⟨k1, hv1⟩ := pred_regex _ a1 hp
  have hid := pred_regex_id _ a1 k1 hp hv1
  simp only [List.map, hv1]
  exact ruleHHOClock_total _ (hint a1 (by simp) k1 hv1) (group_present 129 "hour" req_table.2.2.2.2.2.2 txt a1 (htok a1 (by simp)) k1 hv1 hid)

theorem name_ruleDDMM : RuleId.nameOf .ruleDDMM = "ruleDDMM" := by decide +kernel
theorem sig_ruleDDMM : ∀ r ∈ ruleSigs, r.1 = "ruleDDMM" → r.2 = [.regex 124] := by decide +kernel

theorem applyId_lex_ruleDDMM (ts : Ts) (hts : TsOk ts) (txt : List Nat) (args : List Art)
    (hp : (List.zipWith predHolds [.regex 124] args).all id = true) (hl : args.length = 1)
    (htok : ∀ a ∈ args, a ∈ matchRegex txt) (hint : ∀ a ∈ args, ∀ k, a.v = .tok k → TokInt k) :
    ∃ o, applyId .ruleDDMM ts (args.map (·.v)) = .ok o := by
  rcases args with _ | ⟨a1, _ | ⟨x, rest⟩⟩ <;> simp at hl
  simp only [List.zipWith, List.all_cons, List.all_nil, id, Bool.and_true] at hp
  obtain ⟨k1, hv1⟩ := pred_regex _ a1 hp
  have hid := pred_regex_id _ a1 k1 hp hv1
  simp only [List.map, hv1]
  exact ruleDDMM_total 124 month_table.1 month_table.2.2.2.1 txt a1 (htok a1 (by simp)) k1 hv1 hid (hint a1 (by simp) k1 hv1)

theorem name_ruleMMDD : RuleId.nameOf .ruleMMDD = "ruleMMDD" := by decide +kernel
theorem sig_ruleMMDD : ∀ r ∈ ruleSigs, r.1 = "ruleMMDD" → r.2 = [.regex 125] := by decide +kernel

theorem applyId_lex_ruleMMDD (ts : Ts) (hts : TsOk ts) (txt : List Nat) (args : List Art)
    (hp : (List.zipWith predHolds [.regex 125] args).all id = true) (hl : args.length = 1)
    (htok : ∀ a ∈ args, a ∈ matchRegex txt) (hint : ∀ a ∈ args, ∀ k, a.v = .tok k → TokInt k) :
    ∃ o, applyId .ruleMMDD ts (args.map (·.v)) = .ok o := by
  rcases args with _ | ⟨a1, _ | ⟨x, rest⟩⟩ <;> simp at hl
  simp only [List.zipWith, List.all_cons, List.all_nil, id, Bool.and_true] at hp
  obtain ⟨k1, hv1⟩ := pred_regex _ a1 hp
  have hid := pred_regex_id _ a1 k1 hp hv1
  simp only [List.map, hv1]
  exact ruleDDMM_total 125 month_table.2.1 month_table.2.2.2.2.1 txt a1 (htok a1 (by simp)) k1 hv1 hid (hint a1 (by simp) k1 hv1)

theorem name_ruleDDMMYYYY : RuleId.nameOf .ruleDDMMYYYY = "ruleDDMMYYYY" := by decide +kernel
theorem sig_ruleDDMMYYYY : ∀ r ∈ ruleSigs, r.1 = "ruleDDMMYYYY" → r.2 = [.regex 126] := by decide +kernel

theorem applyId_lex_ruleDDMMYYYY (ts : Ts) (hts : TsOk ts) (txt : List Nat) (args : List Art)
    (hp : (List.zipWith predHolds [.regex 126] args).all id = true) (hl : args.length = 1)
    (htok : ∀ a ∈ args, a ∈ matchRegex txt) (hint : ∀ a ∈ args, ∀ k, a.v = .tok k → TokInt k) :
    ∃ o, applyId .ruleDDMMYYYY ts (args.map (·.v)) = .ok o := by
  rcases args with _ | ⟨a1, _ | ⟨x, rest⟩⟩ <;> simp at hl
  simp only [List.zipWith, List.all_cons, List.all_nil, id, Bool.and_true] at hp
  obtain ⟨k1, hv1⟩ := pred_regex _ a1 hp
  have hid := pred_regex_id _ a1 k1 hp hv1
  simp only [List.map, hv1]
  exact ruleDDMMYYYY_total txt a1 (htok a1 (by simp)) k1 hv1 hid (hint a1 (by simp) k1 hv1)

theorem name_ruleDigitDuration : RuleId.nameOf .ruleDigitDuration = "ruleDigitDuration" := by decide +kernel
theorem sig_ruleDigitDuration : ∀ r ∈ ruleSigs, r.1 = "ruleDigitDuration" → r.2 = [.regex 137] := by decide +kernel

theorem applyId_lex_ruleDigitDuration (ts : Ts) (hts : TsOk ts) (txt : List Nat) (args : List Art)
    (hp : (List.zipWith predHolds [.regex 137] args).all id = true) (hl : args.length = 1)
    (htok : ∀ a ∈ args, a ∈ matchRegex txt) (hint : ∀ a ∈ args, ∀ k, a.v = .tok k → TokInt k) :
    ∃ o, applyId .ruleDigitDuration ts (args.map (·.v)) = .ok o := by
  rcases args with _ | ⟨a1, _ | ⟨x, rest⟩⟩ <;> simp at hl
  simp only [List.zipWith, List.all_cons, List.all_nil, id, Bool.and_true] at hp
  obtain ⟨k1, hv1⟩ := pred_regex _ a1 hp
  have hid := pred_regex_id _ a1 k1 hp hv1
  simp only [List.map, hv1]
  exact ruleDigitDuration_total _ (hint a1 (by simp) k1 hv1)

/-- the token readers -/
def lexRules : List RuleId := [.ruleDOM1, .ruleDOM2, .ruleMonthOrdinal, .ruleYear, .ruleHHMMmilitary, .ruleHHMM, .ruleHHOClock, .ruleDDMM, .ruleMMDD, .ruleDDMMYYYY, .ruleDigitDuration]

theorem lexical_rules_total (rid : RuleId) (hrid : rid ∈ lexRules) (r : String × List Pred) (hr : r ∈ ruleSigs) (hid : RuleId.ofName r.1 = some rid)
    (ts : Ts) (hts : TsOk ts) (txt : List Nat) (args : List Art) (hl : args.length = r.2.length) (hp : (List.zipWith predHolds r.2 args).all id = true)
    (htok : ∀ a ∈ args, a ∈ matchRegex txt) (hint : ∀ a ∈ args, ∀ k, a.v = .tok k → TokInt k) :
    ∃ o, applyId rid ts (args.map (·.v)) = .ok o := by
  cases rid
  case ruleAbsorbOnTime => exact absurd hrid (by decide)
  case ruleAbsorbFromInterval => exact absurd hrid (by decide)
  case ruleNamedDOW => exact absurd hrid (by decide)
  case ruleNamedMonth => exact absurd hrid (by decide)
  case ruleNamedHour => exact absurd hrid (by decide)
  case ruleMidnight => exact absurd hrid (by decide)
  case ruleEarlyLatePOD => exact absurd hrid (by decide)
  case rulePOD => exact absurd hrid (by decide)
  case ruleDOM1 => have e := sig_ruleDOM1 r hr ((ofName_nameOf _ _ hid).trans name_ruleDOM1); rw [e] at hl hp; exact applyId_lex_ruleDOM1 ts hts txt args hp hl htok hint
  case ruleMonthOrdinal => have e := sig_ruleMonthOrdinal r hr ((ofName_nameOf _ _ hid).trans name_ruleMonthOrdinal); rw [e] at hl hp; exact applyId_lex_ruleMonthOrdinal ts hts txt args hp hl htok hint
  case ruleDOM2 => have e := sig_ruleDOM2 r hr ((ofName_nameOf _ _ hid).trans name_ruleDOM2); rw [e] at hl hp; exact applyId_lex_ruleDOM2 ts hts txt args hp hl htok hint
  case ruleYear => have e := sig_ruleYear r hr ((ofName_nameOf _ _ hid).trans name_ruleYear); rw [e] at hl hp; exact applyId_lex_ruleYear ts hts txt args hp hl htok hint
  case ruleToday => exact absurd hrid (by decide)
  case ruleNow => exact absurd hrid (by decide)
  case ruleTomorrow => exact absurd hrid (by decide)
  case ruleAfterTomorrow => exact absurd hrid (by decide)
  case ruleYesterday => exact absurd hrid (by decide)
  case ruleBeforeYesterday => exact absurd hrid (by decide)
  case ruleEOM => exact absurd hrid (by decide)
  case ruleEOY => exact absurd hrid (by decide)
  case ruleDOMMonth => exact absurd hrid (by decide)
  case ruleDOMMonth2 => exact absurd hrid (by decide)
  case ruleMonthDOM => exact absurd hrid (by decide)
  case ruleAtDOW => exact absurd hrid (by decide)
  case ruleNextDOW => exact absurd hrid (by decide)
  case ruleDOWNextWeek => exact absurd hrid (by decide)
  case ruleDOYYear => exact absurd hrid (by decide)
  case ruleDOWPOD => exact absurd hrid (by decide)
  case ruleDOWDOM => exact absurd hrid (by decide)
  case ruleDOWDate => exact absurd hrid (by decide)
  case ruleDateDOW => exact absurd hrid (by decide)
  case ruleLatentDOM => exact absurd hrid (by decide)
  case ruleLatentDOW => exact absurd hrid (by decide)
  case ruleLatentDOY => exact absurd hrid (by decide)
  case ruleLatentPOD => exact absurd hrid (by decide)
  case ruleDDMM => have e := sig_ruleDDMM r hr ((ofName_nameOf _ _ hid).trans name_ruleDDMM); rw [e] at hl hp; exact applyId_lex_ruleDDMM ts hts txt args hp hl htok hint
  case ruleMMDD => have e := sig_ruleMMDD r hr ((ofName_nameOf _ _ hid).trans name_ruleMMDD); rw [e] at hl hp; exact applyId_lex_ruleMMDD ts hts txt args hp hl htok hint
  case ruleDDMMYYYY => have e := sig_ruleDDMMYYYY r hr ((ofName_nameOf _ _ hid).trans name_ruleDDMMYYYY); rw [e] at hl hp; exact applyId_lex_ruleDDMMYYYY ts hts txt args hp hl htok hint
  case ruleHHMMmilitary => have e := sig_ruleHHMMmilitary r hr ((ofName_nameOf _ _ hid).trans name_ruleHHMMmilitary); rw [e] at hl hp; exact applyId_lex_ruleHHMMmilitary ts hts txt args hp hl htok hint
  case ruleHHMM => have e := sig_ruleHHMM r hr ((ofName_nameOf _ _ hid).trans name_ruleHHMM); rw [e] at hl hp; exact applyId_lex_ruleHHMM ts hts txt args hp hl htok hint
  case ruleHHOClock => have e := sig_ruleHHOClock r hr ((ofName_nameOf _ _ hid).trans name_ruleHHOClock); rw [e] at hl hp; exact applyId_lex_ruleHHOClock ts hts txt args hp hl htok hint
  case ruleQuarterBeforeHH => exact absurd hrid (by decide)
  case ruleQuarterAfterHH => exact absurd hrid (by decide)
  case ruleHalfBeforeHH => exact absurd hrid (by decide)
  case ruleHalfAfterHH => exact absurd hrid (by decide)
  case ruleTODPOD => exact absurd hrid (by decide)
  case rulePODTOD => exact absurd hrid (by decide)
  case ruleDateTOD => exact absurd hrid (by decide)
  case ruleTODDate => exact absurd hrid (by decide)
  case ruleDatePOD => exact absurd hrid (by decide)
  case rulePODDate => exact absurd hrid (by decide)
  case ruleBeforeTime => exact absurd hrid (by decide)
  case ruleAfterTime => exact absurd hrid (by decide)
  case ruleDateDate => exact absurd hrid (by decide)
  case ruleDOMDate => exact absurd hrid (by decide)
  case ruleDateDOM => exact absurd hrid (by decide)
  case ruleDOYDate => exact absurd hrid (by decide)
  case ruleDateTimeDateTime => exact absurd hrid (by decide)
  case ruleTODTOD => exact absurd hrid (by decide)
  case rulePODPOD => exact absurd hrid (by decide)
  case ruleDateInterval => exact absurd hrid (by decide)
  case rulePODInterval => exact absurd hrid (by decide)
  case ruleDigitDuration => have e := sig_ruleDigitDuration r hr ((ofName_nameOf _ _ hid).trans name_ruleDigitDuration); rw [e] at hl hp; exact applyId_lex_ruleDigitDuration ts hts txt args hp hl htok hint
  case ruleNamedNumberDuration => exact absurd hrid (by decide)
  case ruleDurationHalf => exact absurd hrid (by decide)
  case ruleIntervalConjDuration => exact absurd hrid (by decide)
  case ruleIntervalDuration => exact absurd hrid (by decide)
  case ruleDurationInterval => exact absurd hrid (by decide)
  case ruleTimeDuration => exact absurd hrid (by decide)

/-- value-level and token-level productions together are all 69 -/
theorem rules_partition : ∀ e ∈ RuleId.all, e.2 ∈ valueRules ∨ e.2 ∈ lexRules := by decide +kernel

end QuickAdd
