import QuickAdd.Lemmas.SearchSound
/-!
# Completeness of the worklist loop (no depth limit, no deadline)

`visits` mirrors `run` and returns the list of popped (expanded) elements when the loop terminates cleanly
(stack empty; no exception; fuel not exhausted).  `visits_closed` / `run_complete`: then every production reachable from the
initial stack is value-equal (`Req` = element-wise `keyEq`) to a visited one — whatever the scorer, i.e. whatever the ordering
and whichever duplicates the score-dependent dedup table rejects — provided `Req` is an equivalence and expansion respects it
(`ExpandRespects`; see `Props/C15` for what that means for the concrete configuration).
-/
namespace QuickAdd

variable {α S : Type}

/-- the stack after one iteration of `run` with the depth limit off: re-sorted only when something was pushed -/
def nextStack (c : Cfg α S) (rest r1 : List (E α S)) : List (E α S) :=
  if r1.isEmpty then rest else sortE c.lt (rest ++ r1)

/-- the elements popped by `run` (depth limit off, no deadline), `none` if the loop does not terminate cleanly -/
def visits (c : Cfg α S) : Nat → List (E α S) → List (List α × S) → Option (List (E α S))
  | 0, _, _ => none
  | f+1, stack, seen =>
    match stack.reverse with
    | [] => some []
    | s :: restRev =>
      match c.expand s.rules s.prod s.trace with
      | .error _ => none
      | .ok succs =>
        let r := pushNew c s.rules succs seen
        (visits c f (nextStack c restRev.reverse r.1) r.2).map (s :: ·)

def Req (c : Cfg α S) (p q : List α) : Prop := listEqBy c.keyEq p q = true

/-- successor productions of (applicable rules, production, trace) -/
def succOf (c : Cfg α S) (rules : List (String × List Gen.Pred)) (p : List α) (t : List String) : List (List α) :=
  match c.expand rules p t with | .ok l => l.map (·.1) | .error _ => []

structure EqvR (c : Cfg α S) : Prop where
  refl : ∀ p, Req c p p
  trans : ∀ p q r, Req c p q → Req c q r → Req c p r

/-- expansion respects value equality of **reachable** productions, whatever rule sets and traces they inherited: two
    reachable productions that compare equal and whose expansions both succeed have pairwise equal successor productions -/
def ExpandRespects (c : Cfg α S) (init : List (E α S)) : Prop :=
  ∀ r1 p1 t1 r2 p2 t2 s1 s2, ReachE c init p1 t1 r1 → ReachE c init p2 t2 r2 → Req c p1 p2 →
    c.expand r1 p1 t1 = .ok s1 → c.expand r2 p2 t2 = .ok s2 → ∀ n ∈ s1, ∃ m ∈ s2, Req c n.1 m.1

theorem mem_ins_self (lt : S → S → Bool) (x : E α S) : ∀ l : List (E α S), x ∈ ins lt x l := by
  intro l; induction l with
  | nil => simp [ins]
  | cons a as ih => simp only [ins]; split <;> simp [ih]

theorem mem_ins_of_mem (lt : S → S → Bool) (x y : E α S) : ∀ l : List (E α S), y ∈ l → y ∈ ins lt x l := by
  intro l; induction l with
  | nil => intro h; simp at h
  | cons a as ih =>
    intro h
    simp only [ins]
    split
    · exact List.mem_cons_of_mem _ h
    · rcases List.mem_cons.mp h with rfl | h
      · simp
      · exact List.mem_cons_of_mem _ (ih h)

theorem mem_foldl_ins_of (lt : S → S → Bool) (y : E α S) : ∀ (l acc : List (E α S)), (y ∈ acc ∨ y ∈ l) → y ∈ l.foldl (fun acc x => ins lt x acc) acc := by
  intro l
  induction l with
  | nil => intro acc h; rcases h with h | h; exact h; simp at h
  | cons x xs ih =>
    intro acc h
    simp only [List.foldl_cons]
    apply ih
    rcases h with h | h
    · exact Or.inl (mem_ins_of_mem lt x y acc h)
    · rcases List.mem_cons.mp h with rfl | h
      · exact Or.inl (mem_ins_self lt _ acc)
      · exact Or.inr h

theorem mem_sortE_iff (lt : S → S → Bool) (l : List (E α S)) (y : E α S) : y ∈ sortE lt l ↔ y ∈ l :=
  ⟨mem_sortE lt l y, fun h => mem_foldl_ins_of lt y l [] (Or.inr h)⟩

theorem mem_nextStack_iff (c : Cfg α S) (rest r1 : List (E α S)) (y : E α S) : y ∈ nextStack c rest r1 ↔ y ∈ rest ++ r1 := by
  unfold nextStack
  cases r1 with
  | nil => simp
  | cons a as => simp only [List.isEmpty_cons, Bool.false_eq_true, if_false]; exact mem_sortE_iff _ _ _

theorem lookupBy_some_mem {K V : Type} (eq : K → K → Bool) (k : K) : ∀ (l : List (K × V)) (v : V), lookupBy eq k l = some v → ∃ e ∈ l, eq k e.1 = true := by
  intro l
  induction l with
  | nil => intro v h; simp [lookupBy] at h
  | cons hd tl ih =>
    intro v h
    obtain ⟨k1, v1⟩ := hd
    simp only [lookupBy] at h
    split at h
    · rename_i heq; exact ⟨(k1, v1), by simp, heq⟩
    · obtain ⟨e, he, hq⟩ := ih v h; exact ⟨e, List.mem_cons_of_mem _ he, hq⟩

/-- the insertion gate of `pushNew`: new key, or a strictly better score than the recorded one -/
def fresh (c : Cfg α S) (seen : List (List α × S)) (p : List α) (s : S) : Bool :=
  match lookupBy (listEqBy c.keyEq) p seen with | some old => c.lt old s | none => true

theorem pushNew_cons2 (c : Cfg α S) (rules : List (String × List Gen.Pred)) (p : List α) (t : List String) (n : Nat)
    (rest : List (List α × List String × Nat)) (seen : List (List α × S)) :
    pushNew c rules ((p, t, n) :: rest) seen =
      (if fresh c seen p (c.scorer p t n) = true then
        ({ prod := p, trace := t, cov := n, score := c.scorer p t n, rules := rules } :: (pushNew c rules rest ((p, c.scorer p t n) :: seen)).1,
         (pushNew c rules rest ((p, c.scorer p t n) :: seen)).2)
       else pushNew c rules rest seen) := rfl

theorem pushNew_cons_pos (c : Cfg α S) (rules : List (String × List Gen.Pred)) (p : List α) (t : List String) (n : Nat)
    (rest : List (List α × List String × Nat)) (seen : List (List α × S))
    (h : fresh c seen p (c.scorer p t n) = true) :
    pushNew c rules ((p, t, n) :: rest) seen =
      ({ prod := p, trace := t, cov := n, score := c.scorer p t n, rules := rules } :: (pushNew c rules rest ((p, c.scorer p t n) :: seen)).1,
       (pushNew c rules rest ((p, c.scorer p t n) :: seen)).2) := by
  rw [pushNew_cons2, if_pos h]

theorem pushNew_cons_neg (c : Cfg α S) (rules : List (String × List Gen.Pred)) (p : List α) (t : List String) (n : Nat)
    (rest : List (List α × List String × Nat)) (seen : List (List α × S))
    (h : ¬ fresh c seen p (c.scorer p t n) = true) :
    pushNew c rules ((p, t, n) :: rest) seen = pushNew c rules rest seen := by
  rw [pushNew_cons2, if_neg h]

/-- what `pushNew` does: every successor is value-equal to a pushed element or to a key that was already in the table; every
    new key is the production of a pushed element; pushed elements are successors carrying the given rule set -/
theorem pushNew_spec (c : Cfg α S) (hrefl : ∀ p, Req c p p) (rules : List (String × List Gen.Pred)) :
    ∀ (succs : List (List α × List String × Nat)) (seen : List (List α × S)),
      (∀ n ∈ succs, (∃ e ∈ (pushNew c rules succs seen).1, Req c n.1 e.prod) ∨ (∃ k ∈ seen, Req c n.1 k.1)) ∧
      (∀ k ∈ (pushNew c rules succs seen).2, k ∈ seen ∨ ∃ e ∈ (pushNew c rules succs seen).1, e.prod = k.1) := by
  intro succs
  induction succs with
  | nil => intro seen; simp [pushNew]
  | cons hd tl ih =>
    intro seen
    obtain ⟨p, t, n⟩ := hd
    by_cases hok : fresh c seen p (c.scorer p t n) = true
    · rw [pushNew_cons_pos c rules p t n tl seen hok]
      obtain ⟨ih1, ih2⟩ := ih ((p, c.scorer p t n) :: seen)
      constructor
      · intro m hm
        rcases List.mem_cons.mp hm with rfl | hm
        · exact Or.inl ⟨({ prod := p, trace := t, cov := n, score := c.scorer p t n, rules := rules } : E α S), List.mem_cons_self, hrefl _⟩
        · rcases ih1 m hm with ⟨e, he, hp⟩ | ⟨k, hk, hr⟩
          · exact Or.inl ⟨e, List.mem_cons_of_mem _ he, hp⟩
          · rcases List.mem_cons.mp hk with rfl | hk
            · exact Or.inl ⟨({ prod := p, trace := t, cov := n, score := c.scorer p t n, rules := rules } : E α S), List.mem_cons_self, hr⟩
            · exact Or.inr ⟨k, hk, hr⟩
      · intro k hk
        rcases ih2 k hk with h | ⟨e, he, hp⟩
        · rcases List.mem_cons.mp h with rfl | h
          · exact Or.inr ⟨({ prod := p, trace := t, cov := n, score := c.scorer p t n, rules := rules } : E α S), List.mem_cons_self, rfl⟩
          · exact Or.inl h
        · exact Or.inr ⟨e, List.mem_cons_of_mem _ he, hp⟩
    · rw [pushNew_cons_neg c rules p t n tl seen hok]
      obtain ⟨ih1, ih2⟩ := ih seen
      constructor
      · intro m hm
        rcases List.mem_cons.mp hm with rfl | hm
        · right
          cases hl : lookupBy (listEqBy c.keyEq) p seen with
          | none => simp [fresh, hl] at hok
          | some old =>
            obtain ⟨e, he, hq⟩ := lookupBy_some_mem (listEqBy c.keyEq) p seen old hl
            exact ⟨e, he, hq⟩
        · exact ih1 m hm
      · exact ih2

/-- loop invariant: table keys and successors of closed elements are value-equal to something still open or closed -/
structure Inv (c : Cfg α S) (stack : List (E α S)) (seen : List (List α × S)) (closed : List (E α S)) : Prop where
  keys : ∀ k ∈ seen, ∃ q, (q ∈ stack ∨ q ∈ closed) ∧ Req c k.1 q.prod
  succ : ∀ cl ∈ closed, ∀ n ∈ succOf c cl.rules cl.prod cl.trace, ∃ q, (q ∈ stack ∨ q ∈ closed) ∧ Req c n q.prod

theorem visits_closed (c : Cfg α S) (he : EqvR c) : ∀ (f : Nat) (stack : List (E α S)) (seen : List (List α × S)) (closed V : List (E α S)),
    visits c f stack seen = some V → Inv c stack seen closed →
    (∀ x ∈ stack, x ∈ V) ∧ (∀ cl, (cl ∈ closed ∨ cl ∈ V) → ∀ n ∈ succOf c cl.rules cl.prod cl.trace, ∃ q, (q ∈ closed ∨ q ∈ V) ∧ Req c n q.prod) := by
  intro f
  induction f with
  | zero => intro stack seen closed V h; simp [visits] at h
  | succ f ih =>
    intro stack seen closed V h hinv
    simp only [visits] at h
    cases hs : stack.reverse with
    | nil =>
      simp only [hs] at h
      simp at h; subst h
      have hst : stack = [] := by simpa using hs
      subst hst
      refine ⟨by simp, ?_⟩
      intro cl hcl n hn
      rcases hcl with hcl | hcl
      · obtain ⟨q, hq, hr⟩ := hinv.succ cl hcl n hn
        rcases hq with hq | hq
        · simp at hq
        · exact ⟨q, Or.inl hq, hr⟩
      · simp at hcl
    | cons s restRev =>
      simp only [hs] at h
      cases hex : c.expand s.rules s.prod s.trace with
      | error e => simp [hex] at h
      | ok succs =>
        simp only [hex] at h
        cases hv : visits c f (nextStack c restRev.reverse (pushNew c s.rules succs seen).1) (pushNew c s.rules succs seen).2 with
        | none => simp [hv] at h
        | some V' =>
          simp only [hv, Option.map_some, Option.some.injEq] at h
          subst h
          have hsmem : s ∈ stack := by
            have : s ∈ stack.reverse := by rw [hs]; simp
            exact List.mem_reverse.mp this
          have hsplit : ∀ x ∈ stack, x = s ∨ x ∈ restRev.reverse := by
            intro x hx
            have : x ∈ stack.reverse := List.mem_reverse.mpr hx
            rw [hs] at this
            rcases List.mem_cons.mp this with h | h
            · exact Or.inl h
            · exact Or.inr (List.mem_reverse.mpr h)
          obtain ⟨pA, pB⟩ := pushNew_spec c he.refl s.rules succs seen
          -- relocation of an element of the old stack / closed list into the new stack / closed list
          have reloc : ∀ q, (q ∈ stack ∨ q ∈ closed) →
              (q ∈ nextStack c restRev.reverse (pushNew c s.rules succs seen).1 ∨ q ∈ closed ++ [s]) := by
            intro q hq
            rcases hq with hq | hq
            · rcases hsplit q hq with rfl | hq
              · exact Or.inr (by simp)
              · exact Or.inl ((mem_nextStack_iff _ _ _ _).mpr (List.mem_append_left _ hq))
            · exact Or.inr (List.mem_append_left _ hq)
          have hinv' : Inv c (nextStack c restRev.reverse (pushNew c s.rules succs seen).1) (pushNew c s.rules succs seen).2 (closed ++ [s]) := by
            constructor
            · intro k hk
              rcases pB k hk with hk | ⟨e, hem, hp⟩
              · obtain ⟨q, hq, hr⟩ := hinv.keys k hk
                exact ⟨q, reloc q hq, hr⟩
              · exact ⟨e, Or.inl ((mem_nextStack_iff _ _ _ _).mpr (List.mem_append_right _ hem)), by rw [← hp]; exact he.refl _⟩
            · intro cl hcl n hn
              rcases List.mem_append.mp hcl with hcl | hcl
              · obtain ⟨q, hq, hr⟩ := hinv.succ cl hcl n hn
                exact ⟨q, reloc q hq, hr⟩
              · simp at hcl; subst hcl
                simp only [succOf, hex, List.mem_map] at hn
                obtain ⟨m, hm, rfl⟩ := hn
                rcases pA m hm with ⟨e, hem, hr⟩ | ⟨k, hk, hr⟩
                · exact ⟨e, Or.inl ((mem_nextStack_iff _ _ _ _).mpr (List.mem_append_right _ hem)), hr⟩
                · obtain ⟨q, hq, hr2⟩ := hinv.keys k hk
                  exact ⟨q, reloc q hq, he.trans _ _ _ hr hr2⟩
          obtain ⟨i1, i2⟩ := ih _ _ (closed ++ [s]) V' hv hinv'
          constructor
          · intro x hx
            rcases hsplit x hx with rfl | hx
            · simp
            · exact List.mem_cons_of_mem _ (i1 x ((mem_nextStack_iff _ _ _ _).mpr (List.mem_append_left _ hx)))
          · intro cl hcl n hn
            have hcl' : cl ∈ closed ++ [s] ∨ cl ∈ V' := by
              rcases hcl with hcl | hcl
              · exact Or.inl (List.mem_append_left _ hcl)
              · rcases List.mem_cons.mp hcl with rfl | hcl
                · exact Or.inl (by simp)
                · exact Or.inr hcl
            obtain ⟨q, hq, hr⟩ := i2 cl hcl' n hn
            refine ⟨q, ?_, hr⟩
            rcases hq with hq | hq
            · rcases List.mem_append.mp hq with hq | hq
              · exact Or.inl hq
              · simp at hq; subst hq; exact Or.inr (by simp)
            · exact Or.inr (List.mem_cons_of_mem _ hq)

/-- everything the loop pops is reachable -/
theorem visits_reach (c : Cfg α S) (init : List (E α S)) : ∀ (f : Nat) (stack : List (E α S)) (seen : List (List α × S)) (V : List (E α S)),
    (∀ e ∈ stack, ReachE c init e.prod e.trace e.rules) → visits c f stack seen = some V → ∀ q ∈ V, ReachE c init q.prod q.trace q.rules := by
  intro f
  induction f with
  | zero => intro stack seen V _ h; simp [visits] at h
  | succ f ih =>
    intro stack seen V hst h
    simp only [visits] at h
    cases hs : stack.reverse with
    | nil => simp only [hs] at h; simp at h; subst h; intro q hq; simp at hq
    | cons s restRev =>
      simp only [hs] at h
      cases hex : c.expand s.rules s.prod s.trace with
      | error e => simp [hex] at h
      | ok succs =>
        simp only [hex] at h
        cases hv : visits c f (nextStack c restRev.reverse (pushNew c s.rules succs seen).1) (pushNew c s.rules succs seen).2 with
        | none => simp [hv] at h
        | some V' =>
          simp only [hv, Option.map_some, Option.some.injEq] at h
          subst h
          have hsmem : s ∈ stack := by
            have : s ∈ stack.reverse := by rw [hs]; simp
            exact List.mem_reverse.mp this
          have hrs := hst s hsmem
          have hnext : ∀ e ∈ nextStack c restRev.reverse (pushNew c s.rules succs seen).1, ReachE c init e.prod e.trace e.rules := by
            intro e he
            rcases List.mem_append.mp ((mem_nextStack_iff _ _ _ _).mp he) with he | he
            · have : e ∈ stack.reverse := by rw [hs]; exact List.mem_cons_of_mem _ (List.mem_reverse.mp he)
              exact hst e (List.mem_reverse.mp this)
            · obtain ⟨hr, n, hn⟩ := mem_pushNew c s.rules succs seen e he
              rw [hr]; exact ReachE.step hrs hex hn
          intro q hq
          rcases List.mem_cons.mp hq with rfl | hq
          · exact hrs
          · exact ih _ _ V' hnext hv q hq

/-- everything the loop pops was expanded without an exception -/
theorem visits_expand_ok (c : Cfg α S) : ∀ (f : Nat) (stack : List (E α S)) (seen : List (List α × S)) (V : List (E α S)),
    visits c f stack seen = some V → ∀ q ∈ V, ∃ s, c.expand q.rules q.prod q.trace = .ok s := by
  intro f
  induction f with
  | zero => intro stack seen V h; simp [visits] at h
  | succ f ih =>
    intro stack seen V h
    simp only [visits] at h
    cases hs : stack.reverse with
    | nil => simp only [hs] at h; simp at h; subst h; intro q hq; simp at hq
    | cons s restRev =>
      simp only [hs] at h
      cases hex : c.expand s.rules s.prod s.trace with
      | error e => simp [hex] at h
      | ok succs =>
        simp only [hex] at h
        cases hv : visits c f (nextStack c restRev.reverse (pushNew c s.rules succs seen).1) (pushNew c s.rules succs seen).2 with
        | none => simp [hv] at h
        | some V' =>
          simp only [hv, Option.map_some, Option.some.injEq] at h
          subst h
          intro q hq
          rcases List.mem_cons.mp hq with rfl | hq
          · exact ⟨succs, hex⟩
          · exact ih _ _ V' hv q hq

/-- **completeness**: if the loop terminates cleanly, every production reachable from the initial stack is value-equal to one
    that was popped and expanded — for every scorer -/
theorem run_complete (c : Cfg α S) (he : EqvR c) (f : Nat) (init V : List (E α S)) (hx : ExpandRespects c init)
    (h : visits c f init [] = some V) :
    ∀ p t rules, ReachE c init p t rules → ∃ q ∈ V, Req c p q.prod := by
  obtain ⟨v1, v2⟩ := visits_closed c he f init [] [] V h ⟨by intro k hk; simp at hk, by intro cl hcl; simp at hcl⟩
  have vr := visits_reach c init f init [] V (fun e he => ReachE.init he) h
  intro p t rules hr
  induction hr with
  | init hm => exact ⟨_, v1 _ hm, he.refl _⟩
  | @step p t rules succs p' t' n hreach hexp hmem ih =>
    obtain ⟨q, hq, hR⟩ := ih
    obtain ⟨sq, hsq⟩ := visits_expand_ok c f init [] V h q hq
    obtain ⟨m0, hm0, hR2⟩ := hx rules p t q.rules q.prod q.trace succs sq hreach (vr q hq) hR hexp hsq (p', t', n) hmem
    have hm : m0.1 ∈ succOf c q.rules q.prod q.trace := by
      simp only [succOf, hsq, List.mem_map]; exact ⟨m0, hm0, rfl⟩
    obtain ⟨q', hq', hR3⟩ := v2 q (Or.inr hq) m0.1 hm
    rcases hq' with hq' | hq'
    · simp at hq'
    · exact ⟨q', hq', he.trans _ _ _ hR2 hR3⟩

/-! ## from visited productions to streamed candidates -/

/-- the emission gate: new resolution, or a strictly better final score than the recorded one -/
def fresh1 (c : Cfg α S) (em : List (α × S)) (x : α) (s : S) : Bool :=
  match lookupBy c.keyEq x em with | some old => c.lt old s | none => true

theorem emit_cons2 (c : Cfg α S) (pr : List α) (tr : List String) (x : α) (xs : List α) (em : List (α × S)) :
    emit c pr tr (x :: xs) em =
      (if c.isVal x = true then
        (if fresh1 c em x (c.final pr tr x) = true then
          ((x, tr, c.final pr tr x) :: (emit c pr tr xs ((x, c.final pr tr x) :: em)).1, (emit c pr tr xs ((x, c.final pr tr x) :: em)).2)
         else emit c pr tr xs em)
       else emit c pr tr xs em) := rfl

theorem emit_cons_pos (c : Cfg α S) (pr : List α) (tr : List String) (x : α) (xs : List α) (em : List (α × S))
    (hv : c.isVal x = true) (h : fresh1 c em x (c.final pr tr x) = true) :
    emit c pr tr (x :: xs) em = ((x, tr, c.final pr tr x) :: (emit c pr tr xs ((x, c.final pr tr x) :: em)).1, (emit c pr tr xs ((x, c.final pr tr x) :: em)).2) := by
  rw [emit_cons2, if_pos hv, if_pos h]

theorem emit_cons_neg (c : Cfg α S) (pr : List α) (tr : List String) (x : α) (xs : List α) (em : List (α × S))
    (hv : c.isVal x = true) (h : ¬ fresh1 c em x (c.final pr tr x) = true) : emit c pr tr (x :: xs) em = emit c pr tr xs em := by
  rw [emit_cons2, if_pos hv, if_neg h]

theorem emit_cons_skip (c : Cfg α S) (pr : List α) (tr : List String) (x : α) (xs : List α) (em : List (α × S))
    (hv : ¬ c.isVal x = true) : emit c pr tr (x :: xs) em = emit c pr tr xs em := by
  rw [emit_cons2, if_neg hv]

/-- every emission carries the trace it was emitted with -/
theorem emit_trace (c : Cfg α S) (pr : List α) (tr : List String) : ∀ (xs : List α) (em : List (α × S)) (o : α × List String × S),
    o ∈ (emit c pr tr xs em).1 → o.2.1 = tr := by
  intro xs
  induction xs with
  | nil => intro em o h; simp [emit] at h
  | cons x xs ih =>
    intro em o h
    by_cases hv : c.isVal x = true
    · by_cases hok : fresh1 c em x (c.final pr tr x) = true
      · rw [emit_cons_pos c pr tr x xs em hv hok] at h
        rcases List.mem_cons.mp h with rfl | h
        · rfl
        · exact ih _ o h
      · rw [emit_cons_neg c pr tr x xs em hv hok] at h; exact ih _ o h
    · rw [emit_cons_skip c pr tr x xs em hv] at h; exact ih _ o h


/-- what `emit` does: every value of the list is streamed, or key-equal to something streamed here or recorded before;
    every new table entry was streamed here -/
theorem emit_spec (c : Cfg α S) (pr : List α) (tr : List String) : ∀ (xs : List α) (em : List (α × S)),
    (∀ x ∈ xs, c.isVal x = true → (∃ o ∈ (emit c pr tr xs em).1, o.1 = x) ∨ (∃ o ∈ (emit c pr tr xs em).1, c.keyEq x o.1 = true) ∨ (∃ k ∈ em, c.keyEq x k.1 = true)) ∧
    (∀ k ∈ (emit c pr tr xs em).2, k ∈ em ∨ ∃ o ∈ (emit c pr tr xs em).1, o.1 = k.1) := by
  intro xs
  induction xs with
  | nil => intro em; simp [emit]
  | cons x xs ih =>
    intro em
    by_cases hv : c.isVal x = true
    · by_cases hok : fresh1 c em x (c.final pr tr x) = true
      · rw [emit_cons_pos c pr tr x xs em hv hok]
        obtain ⟨i1, i2⟩ := ih ((x, c.final pr tr x) :: em)
        constructor
        · intro y hy hyv
          rcases List.mem_cons.mp hy with rfl | hy
          · exact Or.inl ⟨(y, tr, c.final pr tr y), List.mem_cons_self, rfl⟩
          · rcases i1 y hy hyv with ⟨o, ho, e⟩ | ⟨o, ho, e⟩ | ⟨k, hk, e⟩
            · exact Or.inl ⟨o, List.mem_cons_of_mem _ ho, e⟩
            · exact Or.inr (Or.inl ⟨o, List.mem_cons_of_mem _ ho, e⟩)
            · rcases List.mem_cons.mp hk with rfl | hk
              · exact Or.inr (Or.inl ⟨(x, tr, c.final pr tr x), List.mem_cons_self, e⟩)
              · exact Or.inr (Or.inr ⟨k, hk, e⟩)
        · intro k hk
          rcases i2 k hk with h | ⟨o, ho, e⟩
          · rcases List.mem_cons.mp h with rfl | h
            · exact Or.inr ⟨(x, tr, c.final pr tr x), List.mem_cons_self, rfl⟩
            · exact Or.inl h
          · exact Or.inr ⟨o, List.mem_cons_of_mem _ ho, e⟩
      · rw [emit_cons_neg c pr tr x xs em hv hok]
        obtain ⟨i1, i2⟩ := ih em
        refine ⟨?_, i2⟩
        intro y hy hyv
        rcases List.mem_cons.mp hy with rfl | hy
        · right; right
          cases hl : lookupBy c.keyEq y em with
          | none => simp [fresh1, hl] at hok
          | some old => exact lookupBy_some_mem c.keyEq y em old hl
        · exact i1 y hy hyv
    · rw [emit_cons_skip c pr tr x xs em hv]
      obtain ⟨i1, i2⟩ := ih em
      refine ⟨?_, i2⟩
      intro y hy hyv
      rcases List.mem_cons.mp hy with rfl | hy
      · exact absurd hyv hv
      · exact i1 y hy hyv

theorem succOf_nil_iff (c : Cfg α S) (rules : List (String × List Gen.Pred)) (p : List α) (t : List String) (succs : List (List α × List String × Nat))
    (h : c.expand rules p t = .ok succs) : succOf c rules p t = [] ↔ succs = [] := by
  simp [succOf, h]

/-- a clean run without depth limit and deadline pops exactly `visits`, and every value of a popped production that has no
    successor at all is streamed (or key-equal to a streamed / previously recorded value) -/
theorem run_visits (c : Cfg α S) (hd : c.depth = 0) : ∀ (f : Nat) (stack : List (E α S)) (seen : List (List α × S)) (em : List (α × S))
    (outs : List (α × List String × S)),
    run c f none stack seen em = (outs, none) →
    ∃ V, visits c f stack seen = some V ∧
      ∀ q ∈ V, succOf c q.rules q.prod q.trace = [] → ∀ x ∈ q.prod, c.isVal x = true →
        (∃ o ∈ outs, o.1 = x ∧ o.2.1 = q.trace) ∨ (∃ o ∈ outs, c.keyEq x o.1 = true) ∨ (∃ k ∈ em, c.keyEq x k.1 = true) := by
  intro f
  induction f with
  | zero => intro stack seen em outs h; simp [run] at h
  | succ f ih =>
    intro stack seen em outs h
    simp only [run, visits] at h ⊢
    cases hs : stack.reverse with
    | nil => exact ⟨[], by simp, by intro q hq; simp at hq⟩
    | cons s restRev =>
      simp only [hs] at h ⊢
      have hb : ((none : Option Nat) == some 0) = false := rfl
      simp only [hb, Bool.false_eq_true, if_false, Option.map_none] at h
      cases hex : c.expand s.rules s.prod s.trace with
      | error e => simp [hex] at h
      | ok succs =>
        simp only [hex] at h ⊢
        by_cases hem : (pushNew c s.rules succs seen).1.isEmpty = true
        · simp only [hem, if_true] at h
          have hns : nextStack c restRev.reverse (pushNew c s.rules succs seen).1 = restRev.reverse := by simp [nextStack, hem]
          rw [hns]
          have h1 : (run c f none restRev.reverse (pushNew c s.rules succs seen).2 (emit c s.prod s.trace s.prod em).2).2 = none := by
            have := congrArg Prod.snd h; simpa using this
          have h2 : outs = (emit c s.prod s.trace s.prod em).1 ++ (run c f none restRev.reverse (pushNew c s.rules succs seen).2 (emit c s.prod s.trace s.prod em).2).1 := by
            have := congrArg Prod.fst h; simpa using this.symm
          obtain ⟨V, hV, hq⟩ := ih restRev.reverse (pushNew c s.rules succs seen).2 (emit c s.prod s.trace s.prod em).2 _ (Prod.ext rfl h1)
          refine ⟨s :: V, by simp [hV], ?_⟩
          obtain ⟨e1, e2⟩ := emit_spec c s.prod s.trace s.prod em
          intro q hqm hnil x hx hxv
          rcases List.mem_cons.mp hqm with rfl | hqm
          · rcases e1 x hx hxv with ⟨o, ho, e⟩ | ⟨o, ho, e⟩ | ⟨k, hk, e⟩
            · exact Or.inl ⟨o, by rw [h2]; exact List.mem_append_left _ ho, e, emit_trace c _ _ _ _ o ho⟩
            · exact Or.inr (Or.inl ⟨o, by rw [h2]; exact List.mem_append_left _ ho, e⟩)
            · exact Or.inr (Or.inr ⟨k, hk, e⟩)
          · rcases hq q hqm hnil x hx hxv with ⟨o, ho, e⟩ | ⟨o, ho, e⟩ | ⟨k, hk, e⟩
            · exact Or.inl ⟨o, by rw [h2]; exact List.mem_append_right _ ho, e⟩
            · exact Or.inr (Or.inl ⟨o, by rw [h2]; exact List.mem_append_right _ ho, e⟩)
            · rcases e2 k hk with hk | ⟨o, ho, e2'⟩
              · exact Or.inr (Or.inr ⟨k, hk, e⟩)
              · exact Or.inr (Or.inl ⟨o, by rw [h2]; exact List.mem_append_left _ ho, by rw [e2']; exact e⟩)
        · simp only [hem, Bool.false_eq_true, if_false] at h
          have hns : nextStack c restRev.reverse (pushNew c s.rules succs seen).1 = sortE c.lt (restRev.reverse ++ (pushNew c s.rules succs seen).1) := by
            simp [nextStack, hem]
          rw [hns]
          have htr : trunc c.depth (sortE c.lt (restRev.reverse ++ (pushNew c s.rules succs seen).1)) = sortE c.lt (restRev.reverse ++ (pushNew c s.rules succs seen).1) := by
            simp [trunc, hd]
          rw [htr] at h
          obtain ⟨V, hV, hq⟩ := ih _ _ em outs h
          refine ⟨s :: V, by simp [hV], ?_⟩
          intro q hqm hnil x hx hxv
          rcases List.mem_cons.mp hqm with rfl | hqm
          · exfalso
            have : succs = [] := (succOf_nil_iff c _ _ _ succs hex).mp hnil
            subst this
            simp [pushNew] at hem
          · exact hq q hqm hnil x hx hxv

/-! ## element-level equivalence lifts to productions -/

/-- `keyEq` (Python `==` of production elements) is an equivalence that never identifies a value with a non-value -/
structure EqvK (c : Cfg α S) : Prop where
  refl : ∀ x, c.keyEq x x = true
  symm : ∀ x y, c.keyEq x y = true → c.keyEq y x = true
  trans : ∀ x y z, c.keyEq x y = true → c.keyEq y z = true → c.keyEq x z = true
  val : ∀ x y, c.keyEq x y = true → c.isVal x = c.isVal y

theorem listEqBy_refl (eq : α → α → Bool) (h : ∀ x, eq x x = true) : ∀ l, listEqBy eq l l = true := by
  intro l; induction l with
  | nil => rfl
  | cons a as ih => simp [listEqBy, h, ih]

theorem listEqBy_symm (eq : α → α → Bool) (h : ∀ x y, eq x y = true → eq y x = true) : ∀ l m, listEqBy eq l m = true → listEqBy eq m l = true := by
  intro l; induction l with
  | nil => intro m hm; cases m <;> simp_all [listEqBy]
  | cons a as ih =>
    intro m hm
    cases m with
    | nil => simp [listEqBy] at hm
    | cons b bs =>
      simp only [listEqBy, Bool.and_eq_true] at hm ⊢
      exact ⟨h _ _ hm.1, ih _ hm.2⟩

theorem listEqBy_trans (eq : α → α → Bool) (h : ∀ x y z, eq x y = true → eq y z = true → eq x z = true) :
    ∀ l m n, listEqBy eq l m = true → listEqBy eq m n = true → listEqBy eq l n = true := by
  intro l; induction l with
  | nil => intro m n h1 h2; cases m <;> cases n <;> simp_all [listEqBy]
  | cons a as ih =>
    intro m n h1 h2
    cases m with
    | nil => simp [listEqBy] at h1
    | cons b bs =>
      cases n with
      | nil => simp [listEqBy] at h2
      | cons d ds =>
        simp only [listEqBy, Bool.and_eq_true] at h1 h2 ⊢
        exact ⟨h _ _ _ h1.1 h2.1, ih _ _ h1.2 h2.2⟩

theorem listEqBy_mem (eq : α → α → Bool) : ∀ l m, listEqBy eq l m = true → ∀ x ∈ l, ∃ y ∈ m, eq x y = true := by
  intro l; induction l with
  | nil => intro m _ x hx; simp at hx
  | cons a as ih =>
    intro m hm x hx
    cases m with
    | nil => simp [listEqBy] at hm
    | cons b bs =>
      simp only [listEqBy, Bool.and_eq_true] at hm
      rcases List.mem_cons.mp hx with rfl | hx
      · exact ⟨b, List.mem_cons_self, hm.1⟩
      · obtain ⟨y, hy, e⟩ := ih _ hm.2 x hx
        exact ⟨y, List.mem_cons_of_mem _ hy, e⟩

theorem EqvK.toR {c : Cfg α S} (hk : EqvK c) : EqvR c :=
  ⟨fun p => listEqBy_refl _ hk.refl p, fun p q r => listEqBy_trans _ hk.trans p q r⟩

/-- **completeness of the stream**: without depth limit and deadline, if the search ends cleanly then every value of every
    reachable production that no rule can reduce further is key-equal (Python `==`) to a streamed candidate — for every
    scorer.  `ExpandRespects` is the one hypothesis about the rule base that is not proved here (see `Props/C15`). -/
theorem complete_stream (c : Cfg α S) (hd : c.depth = 0) (hk : EqvK c) (f : Nat) (init : List (E α S)) (hER : ExpandRespects c init)
    (outs : List (α × List String × S)) (h : run c f none init [] [] = (outs, none)) :
    ∀ p t rules, ReachE c init p t rules → c.expand rules p t = .ok [] → ∀ x ∈ p, c.isVal x = true → ∃ o ∈ outs, c.keyEq x o.1 = true := by
  intro p t rules hr hnil x hx hxv
  obtain ⟨V, hV, hE⟩ := run_visits c hd f init [] [] outs h
  obtain ⟨q, hq, hR⟩ := run_complete c hk.toR f init V hER hV p t rules hr
  have hqr := visits_reach c init f init [] V (fun e he => ReachE.init he) hV q hq
  have hR' : Req c q.prod p := listEqBy_symm _ hk.symm _ _ hR
  obtain ⟨sq, hsq⟩ := visits_expand_ok c f init [] V hV q hq
  have hqnil : succOf c q.rules q.prod q.trace = [] := by
    cases sq with
    | nil => simp [succOf, hsq]
    | cons n ns =>
      obtain ⟨m, hm, _⟩ := hER q.rules q.prod q.trace rules p t (n :: ns) [] hqr hr hR' hsq hnil n List.mem_cons_self
      simp at hm
  obtain ⟨y, hy, hxy⟩ := listEqBy_mem c.keyEq p q.prod hR x hx
  have hyv : c.isVal y = true := by rw [← hk.val x y hxy]; exact hxv
  rcases hE q hq hqnil y hy hyv with ⟨o, ho, e, _⟩ | ⟨o, ho, e⟩ | ⟨k, hk', _⟩
  · exact ⟨o, ho, by rw [e]; exact hxy⟩
  · exact ⟨o, ho, hk.trans _ _ _ hxy e⟩
  · simp at hk'

end QuickAdd
