import QuickAdd.Lemmas.RulesTotal
import QuickAdd.Lemmas.RRule
/-!
# No time value of a reachable production carries a year above the bound the productions need (C01, hypothesis (b))

Years of plain time values come from three sources only: a year group of a pattern match (at most 2999: `capture_in_range`, the
regenerated table), the reference date plus a bounded offset (a day or two, a week or two, a month, up to 8 years for a day of the
year, up to 400 years for "weekday + day of month" by the periodicity of the calendar), or a copy of an argument's year.  So
`YearLe B` is kept by every production once `2999 ≤ B` and `ts.year + 401 ≤ B`.
-/
namespace QuickAdd
open Gen

/-- a date whose ordinal is at most `k` years of 365 days after `d`'s lies at most `k` calendar years after it -/
theorem year_le_of_ord (c d : Date) (hc : c.Valid) (hd : d.Valid) (k : Nat) (h : c.ord ≤ d.ord + 365 * k) : c.y ≤ d.y + k := by
  by_cases hle : c.y ≤ d.y + k
  · exact hle
  · exfalso
    have h1 := ord_pos_in_year c hc
    have h2 := ord_lt_next_year d hd
    have h3 := dby_mono k (d.y + 1)
    have h4 := dby_mono (c.y - (d.y + 1 + k)).toNat (d.y + 1 + k)
    have e : d.y + 1 + (k : Int) + ((c.y - (d.y + 1 + k)).toNat : Int) = c.y := by omega
    rw [e] at h4
    omega

/-- the bound: every year group reads at most 2999, every reference-relative date lies within 401 years -/
structure YearCap (ts : Ts) (B : Int) : Prop where
  tok : 2999 ≤ B
  rel : ts.date.y + 401 ≤ B

theorem yearLe_time (B : Int) (t : Time) (h : ∀ y, t.year = some y → y ≤ B) : (Val.time t).YearLe B := h

theorem yearLe_tsTime (B : Int) (d : Date) (h : d.y ≤ B) : (Val.time (tsTime d)).YearLe B := by
  intro y hy; simp [tsTime] at hy; omega

/-! ### the reference date and bounded offsets -/
theorem ruleToday_year (ts : Ts) (B : Int) (hB : YearCap ts B) (v : Val) (h : ruleToday ts = .ok (some v)) : v.YearLe B := by
  simp [ruleToday, pure, Except.pure] at h; subst h
  exact yearLe_tsTime B _ (by have := hB.rel; omega)

theorem ruleNow_year (ts : Ts) (B : Int) (hB : YearCap ts B) (v : Val) (h : ruleNow ts = .ok (some v)) : v.YearLe B := by
  simp [ruleNow, pure, Except.pure] at h; subst h
  intro y hy; simp [tsTime] at hy; have := hB.rel; omega

theorem ts_ord_lo (ts : Ts) (hts : TsOk ts) : 3 ≤ ts.date.ord := by
  have h1 := ord_pos_in_year ts.date hts.valid.1
  have h2 := dby_mono (ts.date.y - 2).toNat 2
  have e : (2 : Int) + ((ts.date.y - 2).toNat : Int) = ts.date.y := by have := hts.lo; omega
  rw [e] at h2
  have : dby 2 = 365 := by decide
  omega

theorem relDays_year (ts : Ts) (hts : TsOk ts) (B : Int) (hB : YearCap ts B) (n : Int) (hn : -2 ≤ n ∧ n ≤ 2) (v : Val)
    (h : relDays ts n = .ok (some v)) : v.YearLe B := by
  obtain ⟨o1, o2⟩ := hts.ord
  have o0 := ts_ord_lo ts hts
  obtain ⟨d, hd, dv, dord⟩ := C03.relDays_spec ts n (by omega) (by omega)
  rw [hd] at h; cases h
  have := year_le_of_ord d ts.date dv hts.valid.1 1 (by omega)
  exact yearLe_tsTime B d (by have := hB.rel; omega)

theorem ruleEOM_year (ts : Ts) (hts : TsOk ts) (B : Int) (hB : YearCap ts B) (v : Val) (h : ruleEOM ts = .ok (some v)) : v.YearLe B := by
  have hs := C03.eom_spec ts hts.valid.1 (by have := hts.lo; omega) (by have := hts.hi; omega)
  rw [hs] at h; cases h
  exact yearLe_tsTime B _ (by have := hB.rel; show ts.date.y ≤ B; omega)

theorem ruleEOY_year (ts : Ts) (hts : TsOk ts) (B : Int) (hB : YearCap ts B) (v : Val) (h : ruleEOY ts = .ok (some v)) : v.YearLe B := by
  unfold ruleEOY at h
  cases ha : dateOk (ts.date.addMonthsClip 12) with
  | error e => simp [ha, bind, Except.bind] at h
  | ok a =>
    simp only [ha, bind, Except.bind] at h
    cases hb : dateOk ((⟨a.y, 1, 1⟩ : Date).addDays (-1)) with
    | error e => simp [hb] at h
    | ok b =>
      simp [hb, pure, Except.pure] at h; subst h
      have ea : a = ts.date.addMonthsClip 12 := by
        unfold dateOk at ha; split at ha <;> simp [pure, Except.pure, throw, throwThe, MonadExceptOf.throw] at ha; exact ha.symm
      have ey : a.y = ts.date.y + 1 := by
        obtain ⟨m1, m2, _, _⟩ := hts.valid.1
        rw [ea]; simp only [Date.addMonthsClip]; omega
      have hbv : (⟨a.y, 1, 1⟩ : Date).Valid := by
        have := dim_bounds a.y 1
        refine ⟨?_, ?_, ?_, ?_⟩ <;> dsimp only <;> omega
      have eb : b = (⟨a.y, 1, 1⟩ : Date).addDays (-1) := by
        unfold dateOk at hb; split at hb <;> simp [pure, Except.pure, throw, throwThe, MonadExceptOf.throw] at hb; exact hb.symm
      obtain ⟨o1, o2⟩ := ord_bounds_of_year ⟨a.y, 1, 1⟩ hbv ⟨by dsimp only; have := hts.lo; omega, by dsimp only; have := hts.hi; omega⟩
      have o0 : 2 ≤ (⟨a.y, 1, 1⟩ : Date).ord := by
        have h1 := ord_pos_in_year ⟨a.y, 1, 1⟩ hbv
        have h2 := dby_mono (a.y - 2).toNat 2
        have e : (2 : Int) + ((a.y - 2).toNat : Int) = a.y := by have := hts.lo; omega
        rw [e] at h2
        have : dby 2 = 365 := by decide
        dsimp only at h1
        omega
      obtain ⟨bv, bo⟩ := addDays_spec ⟨a.y, 1, 1⟩ (-1) (by omega) (by omega)
      rw [← eb] at bv bo
      have hyb : b.y ≤ a.y + ((0 : Nat) : Int) := year_le_of_ord b ⟨a.y, 1, 1⟩ bv hbv 0 (by omega)
      exact yearLe_tsTime B b (by have := hB.rel; omega)

theorem dow_range_of_ok (t : Time) (ok : t.Ok) (w : Int) (hw : t.dow = some w) : 0 ≤ w ∧ w < 7 := by
  have := ok.dow w hw; omega

theorem ruleAtDOW_year (ts : Ts) (hts : TsOk ts) (B : Int) (hB : YearCap ts B) (t : Time) (ok : t.Ok) (v : Val)
    (h : ruleAtDOW ts t = .ok (some v)) : v.YearLe B := by
  cases hw : t.dow with
  | none => simp [ruleAtDOW, hw, need, bind, Except.bind, throw, throwThe, MonadExceptOf.throw] at h
  | some w =>
    have e : ruleAtDOW ts t = ruleAtDOW ts { dow := some w } := by simp only [ruleAtDOW, hw]
    obtain ⟨o1, o2⟩ := hts.ord
    obtain ⟨d, hd, dv, _, _, dhi⟩ := C03.atDOW_spec ts w (dow_range_of_ok t ok w hw) o1 (by omega) hts.valid.1
    rw [e, hd] at h; cases h
    have := year_le_of_ord d ts.date dv hts.valid.1 1 (by omega)
    exact yearLe_tsTime B d (by have := hB.rel; omega)

theorem ruleNextDOW_year (ts : Ts) (hts : TsOk ts) (B : Int) (hB : YearCap ts B) (t : Time) (ok : t.Ok) (v : Val)
    (h : ruleNextDOW ts t = .ok (some v)) : v.YearLe B := by
  cases hw : t.dow with
  | none => simp [ruleNextDOW, hw, need, bind, Except.bind, throw, throwThe, MonadExceptOf.throw] at h
  | some w =>
    have e : ruleNextDOW ts t = ruleNextDOW ts { dow := some w } := by simp only [ruleNextDOW, hw]
    obtain ⟨o1, o2⟩ := hts.ord
    obtain ⟨d, hd, dv, _, _, dhi⟩ := C03.nextDOW_spec ts w (dow_range_of_ok t ok w hw) o1 (by omega)
    rw [e, hd] at h; cases h
    have := year_le_of_ord d ts.date dv hts.valid.1 1 (by omega)
    exact yearLe_tsTime B d (by have := hB.rel; omega)

theorem latentDOMLoop_year (ts : Ts) (d : Int) : ∀ (f : Nat) (mi : Int) (c : Date), latentDOMLoop ts d f mi = some c → c.y ≤ (mi + f) / 12 := by
  intro f
  induction f with
  | zero => intro mi c h; simp [latentDOMLoop] at h
  | succ f ih =>
    intro mi c h
    simp only [latentDOMLoop] at h
    split at h
    · simp at h; subst h; show mi / 12 ≤ (mi + ((f + 1 : Nat) : Int)) / 12; omega
    · have := ih _ c h
      have e : mi + 1 + (f : Int) = mi + ((f + 1 : Nat) : Int) := by push_cast; omega
      rw [e] at this; exact this

theorem ruleLatentDOM_year (ts : Ts) (hts : TsOk ts) (B : Int) (hB : YearCap ts B) (t : Time) (v : Val)
    (h : ruleLatentDOM ts t = .ok (some v)) : v.YearLe B := by
  unfold ruleLatentDOM at h
  cases hd : t.day with
  | none => simp [hd, need, bind, Except.bind, throw, throwThe, MonadExceptOf.throw] at h
  | some d =>
    simp only [hd, need, bind, Except.bind, pure, Except.pure] at h
    cases hl : latentDOMLoop ts d 13 (12 * ts.date.y + (ts.date.m - 1)) with
    | none => simp [hl] at h
    | some c =>
      simp only [hl] at h
      cases hc : dateOk c with
      | error e => simp [hc] at h
      | ok c' =>
        simp [hc] at h; subst h
        have ec : c' = c := by
          unfold dateOk at hc; split at hc <;> simp [pure, Except.pure, throw, throwThe, MonadExceptOf.throw] at hc; exact hc.symm
        have := latentDOMLoop_year ts d 13 _ c hl
        obtain ⟨m1, m2, _, _⟩ := hts.valid.1
        exact yearLe_tsTime B c' (by rw [ec]; have := hB.rel; push_cast at this ⊢; omega)

theorem ruleLatentDOY_year (ts : Ts) (B : Int) (hB : YearCap ts B) (t : Time) (v : Val)
    (h : ruleLatentDOY ts t = .ok (some v)) : v.YearLe B := by
  unfold ruleLatentDOY at h
  cases hm : t.month with
  | none => simp [hm, need, bind, Except.bind, throw, throwThe, MonadExceptOf.throw] at h
  | some m =>
    cases hd : t.day with
    | none => simp [hm, hd, need, bind, Except.bind, pure, Except.pure, throw, throwThe, MonadExceptOf.throw] at h
    | some d =>
      simp only [hm, hd, need, bind, Except.bind, pure, Except.pure] at h
      split at h
      · simp [throw, throwThe, MonadExceptOf.throw] at h
      · cases hl : latentDOYLoop ts m d 9 ts.date.y with
        | none => simp [hl] at h
        | some c =>
          simp only [hl] at h
          cases hc : dateOk c with
          | error e => simp [hc] at h
          | ok c' =>
            simp [hc] at h; subst h
            have ec : c' = c := by
              unfold dateOk at hc; split at hc <;> simp [pure, Except.pure, throw, throwThe, MonadExceptOf.throw] at hc; exact hc.symm
            obtain ⟨_, _, _, _, y2⟩ := latentDOYLoop_year ts m d 9 ts.date.y c hl
            exact yearLe_tsTime B c' (by rw [ec]; have := hB.rel; push_cast at y2; omega)

theorem ruleLatentPOD_year (ts : Ts) (hts : TsOk ts) (B : Int) (hB : YearCap ts B) (t : Time) (v : Val)
    (h : ruleLatentPOD ts t = .ok (some v)) : v.YearLe B := by
  unfold ruleLatentPOD at h
  cases hp : t.pod with
  | none => simp [hp, needS, bind, Except.bind, throw, throwThe, MonadExceptOf.throw] at h
  | some p =>
    simp only [hp, needS, bind, Except.bind, pure, Except.pure] at h
    cases hl : podLookup p with
    | none => simp [hl, throw, throwThe, MonadExceptOf.throw] at h
    | some ab =>
      obtain ⟨a, b⟩ := ab
      simp only [hl] at h
      split at h
      · simp [throw, throwThe, MonadExceptOf.throw] at h
      · generalize hd0 : (if a * 60 ≤ ts.h * 60 + ts.mi then ts.date.addDays 1 else ts.date) = d0 at h
        cases hc : dateOk d0 with
        | error e => simp [hc] at h
        | ok c =>
          simp [hc] at h; subst h
          have ec : c = d0 := by
            unfold dateOk at hc; split at hc <;> simp [pure, Except.pure, throw, throwThe, MonadExceptOf.throw] at hc; exact hc.symm
          obtain ⟨o1, o2⟩ := hts.ord
          have hy : d0.y ≤ ts.date.y + 1 := by
            subst hd0
            split
            · obtain ⟨av, ao⟩ := addDays_spec ts.date 1 (by omega) (by omega)
              have := year_le_of_ord _ ts.date av hts.valid.1 1 (by omega)
              omega
            · omega
          subst ec
          intro y hy'; simp [tsTime] at hy'; have := hB.rel; omega

/-- the monthly search returns no later than any month that qualifies -/
theorem rrule_year (start : Date) (w d : Int) : ∀ (fuel : Nat) (mi : Int) (j : Nat), j < fuel →
    goodMonth w d (mi + j) = true → start.ord ≤ (⟨(mi + j) / 12, (mi + j) % 12 + 1, d⟩ : Date).ord →
    ∀ c, rruleMonthly start w d fuel mi = some c → c.y ≤ (mi + j) / 12 := by
  intro fuel
  induction fuel with
  | zero => intro mi j hj; omega
  | succ f ih =>
    intro mi j hj hg ho c hc
    simp only [rruleMonthly] at hc
    split at hc
    · cases hc
    · split at hc
      · simp at hc; subst hc; show mi / 12 ≤ (mi + (j : Int)) / 12; omega
      · rename_i hn
        cases j with
        | zero =>
          exfalso
          apply hn
          simp only [goodMonth, Bool.and_eq_true, decide_eq_true_eq, beq_iff_eq] at hg
          simp only [Int.natCast_zero, Int.add_zero] at hg ho
          simp only [Bool.and_eq_true, decide_eq_true_eq, beq_iff_eq]
          exact ⟨⟨hg.1, hg.2⟩, ho⟩
        | succ j' =>
          have e : mi + ((j' + 1 : Nat) : Int) = (mi + 1) + (j' : Int) := by push_cast; omega
          rw [e] at hg ho ⊢
          exact ih (mi + 1) j' (by omega) hg ho c hc

theorem ruleDOWDOM_year (ts : Ts) (hts : TsOk ts) (B : Int) (hB : YearCap ts B) (dow dom : Time) (ok1 : dow.Ok) (ok2 : dom.Ok) (v : Val)
    (h : ruleDOWDOM ts dow dom = .ok (some v)) : v.YearLe B := by
  unfold ruleDOWDOM at h
  cases hw : dow.dow with
  | none => simp [hw, need, bind, Except.bind, throw, throwThe, MonadExceptOf.throw] at h
  | some w0 =>
    simp only [hw, need, bind, Except.bind, pure, Except.pure] at h
    cases hww : weekdayArg w0 with
    | error e => simp [hww] at h
    | ok w =>
      simp only [hww] at h
      cases hdd : dom.day with
      | none => simp [hdd, throw, throwThe, MonadExceptOf.throw] at h
      | some d =>
        simp only [hdd] at h
        cases hr : rruleMonthly ts.date w d (12 * 8000) (12 * ts.date.y + (ts.date.m - 1)) with
        | none => simp [hr, throw, throwThe, MonadExceptOf.throw] at h
        | some c =>
          simp [hr] at h; subst h
          have hw' : 0 ≤ w ∧ w ≤ 6 := by
            unfold weekdayArg at hww
            split at hww
            · rename_i hc; simp [pure, Except.pure] at hww; subst hww
              simp only [Bool.and_eq_true, decide_eq_true_eq] at hc; exact hc
            · simp [throw, throwThe, MonadExceptOf.throw] at hww
          have hd := ok2.day d hdd
          obtain ⟨m1, m2, d1, d2⟩ := hts.valid.1
          obtain ⟨j, hj, hg⟩ := good_after w d hw' hd (12 * ts.date.y + (ts.date.m - 1))
          have hgood := hg
          simp only [goodMonth, Bool.and_eq_true, decide_eq_true_eq, beq_iff_eq] at hg
          have e : 12 * ts.date.y + (ts.date.m - 1) + ((j + 1 : Nat) : Int) = 12 * ts.date.y + (ts.date.m - 1) + 1 + (j : Int) := by push_cast; omega
          have hord : ts.date.ord ≤ (⟨(12 * ts.date.y + (ts.date.m - 1) + ((j + 1 : Nat) : Int)) / 12, (12 * ts.date.y + (ts.date.m - 1) + ((j + 1 : Nat) : Int)) % 12 + 1, d⟩ : Date).ord := by
            rw [e]
            apply Int.le_of_lt
            apply ord_lt_of_lex ts.date _ hts.valid.1
            · refine ⟨?_, ?_, ?_, ?_⟩ <;> dsimp only <;> first | omega | exact hg.1
            · dsimp only; omega
          have hy := rrule_year ts.date w d (12 * 8000) (12 * ts.date.y + (ts.date.m - 1)) (j + 1) (by omega) (by rw [e]; exact hgood) hord c hr
          exact yearLe_tsTime B c (by have := hB.rel; push_cast at hy; omega)

/-! ### year groups of pattern matches -/
theorem ruleYear_year (ts : Ts) (hts : TsOk ts) (B : Int) (hB : YearCap ts B) (k : Tok) (hk : TokOk k) (v : Val)
    (h : ruleYear ts k = .ok (some v)) : v.YearLe B := by
  unfold ruleYear at h
  cases hg : grpInt k "year" with
  | error e => simp [hg, bind, Except.bind] at h
  | ok y =>
    have hr := grpInt_range k hk "year" 0 2999 (by decide) y hg
    have := hB.tok; have := hB.rel; have := hts.lo
    simp only [hg, bind, Except.bind, pure, Except.pure] at h
    split at h
    · split at h <;> (simp at h; subst h; intro z hz; simp at hz; omega)
    · simp at h; subst h; intro z hz; simp at hz; omega

theorem ruleDDMMYYYY_year (B : Int) (hB : 2999 ≤ B) (k : Tok) (hk : TokOk k) (v : Val)
    (h : ruleDDMMYYYY k = .ok (some v)) : v.YearLe B := by
  unfold ruleDDMMYYYY at h
  cases hg : grpInt k "year" with
  | error e => simp [hg, bind, Except.bind] at h
  | ok y =>
    have hr := grpInt_range k hk "year" 0 2999 (by decide) y hg
    simp only [hg, bind, Except.bind, pure, Except.pure] at h
    cases hm : monthOf k with
    | error e => simp [hm] at h
    | ok m =>
      simp only [hm] at h
      cases hd : grpInt k "day" with
      | error e => simp [hd] at h
      | ok d =>
        simp [hd] at h; subst h
        intro z hz; simp at hz
        split at hz <;> omega


/-! ### productions whose time values carry no year, or that build intervals and durations (one tactic: split the definition) -/
syntax "yr_auto " ident : tactic
macro_rules
  | `(tactic| yr_auto $h:ident) => `(tactic| (
      repeat' (split at $h:ident)
      all_goals (try (simp [pure, Except.pure, throw, throwThe, MonadExceptOf.throw] at $h:ident))
      all_goals (try (subst $h:ident))
      all_goals (try (first | trivial | (intro y hy; simp at hy)))))

theorem applyAmPm_year (t : Time) (g : Option (List Nat)) (h : t.year = none) : (applyAmPm t g).year = none := by
  unfold applyAmPm
  split
  · exact h
  · split
    · exact h
    · split
      · dsimp only
        repeat' split
        all_goals first | exact h | rfl
      · exact h

theorem ruleMidnight_year (B : Int)  (v : Val) (h : ruleMidnight  = .ok (some v)) : v.YearLe B := by
  simp only [ruleMidnight, need, needS, bind, Except.bind, pure, Except.pure] at h
  yr_auto h

theorem ruleEarlyLatePOD_year (B : Int) (k : Tok) (p : Time) (v : Val) (h : ruleEarlyLatePOD k p = .ok (some v)) : v.YearLe B := by
  simp only [ruleEarlyLatePOD, need, needS, bind, Except.bind, pure, Except.pure] at h
  yr_auto h

theorem ruleDOM1_year (B : Int) (k : Tok) (v : Val) (h : ruleDOM1 k = .ok (some v)) : v.YearLe B := by
  simp only [ruleDOM1, need, needS, bind, Except.bind, pure, Except.pure] at h
  yr_auto h

theorem ruleMonthOrdinal_year (B : Int) (k : Tok) (v : Val) (h : ruleMonthOrdinal k = .ok (some v)) : v.YearLe B := by
  simp only [ruleMonthOrdinal, need, needS, bind, Except.bind, pure, Except.pure] at h
  yr_auto h

theorem ruleDOM2_year (B : Int) (k : Tok) (v : Val) (h : ruleDOM2 k = .ok (some v)) : v.YearLe B := by
  simp only [ruleDOM2, need, needS, bind, Except.bind, pure, Except.pure] at h
  yr_auto h

theorem ruleDOMMonth_year (B : Int) (a : Time) (b : Time) (v : Val) (h : ruleDOMMonth a b = .ok (some v)) : v.YearLe B := by
  simp only [ruleDOMMonth, need, needS, bind, Except.bind, pure, Except.pure] at h
  yr_auto h

theorem ruleMonthDOM_year (B : Int) (a : Time) (b : Time) (v : Val) (h : ruleMonthDOM a b = .ok (some v)) : v.YearLe B := by
  simp only [ruleMonthDOM, need, needS, bind, Except.bind, pure, Except.pure] at h
  yr_auto h

theorem ruleDOWPOD_year (B : Int) (a : Time) (b : Time) (v : Val) (h : ruleDOWPOD a b = .ok (some v)) : v.YearLe B := by
  simp only [ruleDOWPOD, need, needS, bind, Except.bind, pure, Except.pure] at h
  yr_auto h

theorem ruleDDMM_year (B : Int) (k : Tok) (v : Val) (h : ruleDDMM k = .ok (some v)) : v.YearLe B := by
  simp only [ruleDDMM, need, needS, bind, Except.bind, pure, Except.pure] at h
  yr_auto h

theorem ruleHHOClock_year (B : Int) (k : Tok) (v : Val) (h : ruleHHOClock k = .ok (some v)) : v.YearLe B := by
  simp only [ruleHHOClock, need, needS, bind, Except.bind, pure, Except.pure] at h
  yr_auto h

theorem ruleQuarterBeforeHH_year (B : Int) (t : Time) (v : Val) (h : ruleQuarterBeforeHH t = .ok (some v)) : v.YearLe B := by
  simp only [ruleQuarterBeforeHH, need, needS, bind, Except.bind, pure, Except.pure] at h
  yr_auto h

theorem ruleQuarterAfterHH_year (B : Int) (t : Time) (v : Val) (h : ruleQuarterAfterHH t = .ok (some v)) : v.YearLe B := by
  simp only [ruleQuarterAfterHH, need, needS, bind, Except.bind, pure, Except.pure] at h
  yr_auto h

theorem ruleHalfBeforeHH_year (B : Int) (t : Time) (v : Val) (h : ruleHalfBeforeHH t = .ok (some v)) : v.YearLe B := by
  simp only [ruleHalfBeforeHH, need, needS, bind, Except.bind, pure, Except.pure] at h
  yr_auto h

theorem ruleHalfAfterHH_year (B : Int) (t : Time) (v : Val) (h : ruleHalfAfterHH t = .ok (some v)) : v.YearLe B := by
  simp only [ruleHalfAfterHH, need, needS, bind, Except.bind, pure, Except.pure] at h
  yr_auto h

theorem ruleTODPOD_year (B : Int) (a : Time) (b : Time) (v : Val) (h : ruleTODPOD a b = .ok (some v)) : v.YearLe B := by
  simp only [ruleTODPOD, need, needS, bind, Except.bind, pure, Except.pure] at h
  yr_auto h

theorem ruleBeforeTime_year (B : Int) (k : Tok) (t : Time) (v : Val) (h : ruleBeforeTime k t = .ok (some v)) : v.YearLe B := by
  simp only [ruleBeforeTime, need, needS, bind, Except.bind, pure, Except.pure] at h
  yr_auto h

theorem ruleAfterTime_year (B : Int) (k : Tok) (t : Time) (v : Val) (h : ruleAfterTime k t = .ok (some v)) : v.YearLe B := by
  simp only [ruleAfterTime, need, needS, bind, Except.bind, pure, Except.pure] at h
  yr_auto h

theorem ruleDateDate_year (B : Int) (a : Time) (b : Time) (v : Val) (h : ruleDateDate a b = .ok (some v)) : v.YearLe B := by
  simp only [ruleDateDate, need, needS, bind, Except.bind, pure, Except.pure] at h
  yr_auto h

theorem ruleDOMDate_year (B : Int) (a : Time) (b : Time) (v : Val) (h : ruleDOMDate a b = .ok (some v)) : v.YearLe B := by
  simp only [ruleDOMDate, need, needS, bind, Except.bind, pure, Except.pure] at h
  yr_auto h

theorem ruleDateDOM_year (B : Int) (a : Time) (b : Time) (v : Val) (h : ruleDateDOM a b = .ok (some v)) : v.YearLe B := by
  simp only [ruleDateDOM, need, needS, bind, Except.bind, pure, Except.pure] at h
  yr_auto h

theorem ruleDOYDate_year (B : Int) (a : Time) (b : Time) (v : Val) (h : ruleDOYDate a b = .ok (some v)) : v.YearLe B := by
  simp only [ruleDOYDate, need, needS, bind, Except.bind, pure, Except.pure] at h
  yr_auto h

theorem ruleDateTimeDateTime_year (B : Int) (a : Time) (b : Time) (v : Val) (h : ruleDateTimeDateTime a b = .ok (some v)) : v.YearLe B := by
  simp only [ruleDateTimeDateTime, need, needS, bind, Except.bind, pure, Except.pure] at h
  yr_auto h

theorem ruleTODTOD_year (B : Int) (a : Time) (b : Time) (v : Val) (h : ruleTODTOD a b = .ok (some v)) : v.YearLe B := by
  simp only [ruleTODTOD, need, needS, bind, Except.bind, pure, Except.pure] at h
  yr_auto h

theorem rulePODPOD_year (B : Int) (a : Time) (b : Time) (v : Val) (h : rulePODPOD a b = .ok (some v)) : v.YearLe B := by
  simp only [rulePODPOD, need, needS, bind, Except.bind, pure, Except.pure] at h
  yr_auto h

theorem ruleDateInterval_year (B : Int) (d : Time) (f : Option Time) (t : Option Time) (v : Val) (h : ruleDateInterval d f t = .ok (some v)) : v.YearLe B := by
  simp only [ruleDateInterval, need, needS, bind, Except.bind, pure, Except.pure] at h
  yr_auto h

theorem rulePODInterval_year (B : Int) (p : Time) (f : Option Time) (t : Option Time) (v : Val) (h : rulePODInterval p f t = .ok (some v)) : v.YearLe B := by
  simp only [rulePODInterval, need, needS, bind, Except.bind, pure, Except.pure] at h
  yr_auto h

theorem ruleDigitDuration_year (B : Int) (k : Tok) (v : Val) (h : ruleDigitDuration k = .ok (some v)) : v.YearLe B := by
  simp only [ruleDigitDuration, need, needS, bind, Except.bind, pure, Except.pure] at h
  yr_auto h

theorem ruleNamedNumberDuration_year (B : Int) (k : Tok) (v : Val) (h : ruleNamedNumberDuration k = .ok (some v)) : v.YearLe B := by
  simp only [ruleNamedNumberDuration, need, needS, bind, Except.bind, pure, Except.pure] at h
  yr_auto h

theorem ruleDurationHalf_year (B : Int) (k : Tok) (v : Val) (h : ruleDurationHalf k = .ok (some v)) : v.YearLe B := by
  simp only [ruleDurationHalf, need, needS, bind, Except.bind, pure, Except.pure] at h
  yr_auto h

theorem ruleDurationInterval_year (B : Int) (n : Int) (u : DUnit) (f : Option Time) (t : Option Time) (v : Val) (h : ruleDurationInterval n u f t = .ok (some v)) : v.YearLe B := by
  simp only [ruleDurationInterval, need, needS, bind, Except.bind, pure, Except.pure] at h
  yr_auto h

theorem ruleTimeDuration_year (B : Int) (t : Time) (n : Int) (u : DUnit) (v : Val) (h : ruleTimeDuration t n u = .ok (some v)) : v.YearLe B := by
  simp only [ruleTimeDuration, need, needS, bind, Except.bind, pure, Except.pure] at h
  yr_auto h

theorem ruleHHMM_year (B : Int) (k : Tok) (v : Val) (h : ruleHHMM k = .ok (some v)) : v.YearLe B := by
  simp only [ruleHHMM, bind, Except.bind, pure, Except.pure] at h
  repeat' (split at h)
  all_goals (try (simp at h))
  subst h
  intro y hy; rw [applyAmPm_year _ _ rfl] at hy; cases hy

theorem ruleHHMMmilitary_year (B : Int) (ts : Ts) (k : Tok) (v : Val) (h : ruleHHMMmilitary ts k = .ok (some v)) : v.YearLe B := by
  simp only [ruleHHMMmilitary, bind, Except.bind, pure, Except.pure] at h
  repeat' (split at h)
  all_goals (try (simp at h))
  subst h
  intro y hy; rw [applyAmPm_year _ _ rfl] at hy; cases hy

theorem ruleNamedDOW_year (B : Int) (k : Tok) (v : Val) (h : ruleNamedDOW k = .ok (some v)) : v.YearLe B := by
  unfold ruleNamedDOW at h
  cases hf : firstSet k dows with
  | none => simp [hf, pure, Except.pure] at h
  | some i => simp [hf, pure, Except.pure] at h; subst h; intro y hy; simp at hy
theorem ruleNamedMonth_year (B : Int) (k : Tok) (v : Val) (h : ruleNamedMonth k = .ok (some v)) : v.YearLe B := by
  unfold ruleNamedMonth at h
  cases hf : firstSet k months with
  | none => simp [hf, pure, Except.pure] at h
  | some i => simp [hf, pure, Except.pure] at h; subst h; intro y hy; simp at hy
theorem ruleNamedHour_year (B : Int) (k : Tok) (v : Val) (h : ruleNamedHour k = .ok (some v)) : v.YearLe B := by
  unfold ruleNamedHour at h
  have h' := Except.ok.inj h
  obtain ⟨n, _, rfl⟩ := Option.map_eq_some_iff.mp h'
  intro y hy; simp at hy
theorem rulePOD_year (B : Int) (k : Tok) (v : Val) (h : rulePOD k = .ok (some v)) : v.YearLe B := by
  simp [rulePOD, pure, Except.pure] at h; obtain ⟨i, _, rfl⟩ := h; intro y hy; simp at hy

/-! ### productions that copy the year of an argument -/
theorem ruleDOYYear_year (B : Int) (doy yv : Time) (hy : (Val.time yv).YearLe B) (v : Val) (h : ruleDOYYear doy yv = .ok (some v)) : v.YearLe B := by
  simp [ruleDOYYear, pure, Except.pure] at h; subst h; intro y hy'; exact hy y (by simpa using hy')
theorem ruleDOWDate_year (B : Int) (dow date : Time) (hy : (Val.time date).YearLe B) (v : Val) (h : ruleDOWDate dow date = .ok (some v)) : v.YearLe B := by
  simp [ruleDOWDate, pure, Except.pure] at h; subst h; intro y hy'; exact hy y (by simpa using hy')
theorem ruleDateTOD_year (B : Int) (date tod : Time) (hy : (Val.time date).YearLe B) (v : Val) (h : ruleDateTOD date tod = .ok (some v)) : v.YearLe B := by
  simp [ruleDateTOD, pure, Except.pure] at h; subst h; intro y hy'; exact hy y (by simpa using hy')
theorem ruleDatePOD_year (B : Int) (d pod : Time) (hy : (Val.time d).YearLe B) (v : Val) (h : ruleDatePOD d pod = .ok (some v)) : v.YearLe B := by
  simp [ruleDatePOD, pure, Except.pure] at h; subst h; intro y hy'; exact hy y (by simpa using hy')

end QuickAdd
