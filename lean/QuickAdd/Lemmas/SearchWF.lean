import QuickAdd.Lemmas.RulesWFAll
import QuickAdd.Lemmas.SearchSound
import QuickAdd.Lemmas.ExpandSound
import QuickAdd.Props.C18
/-!
# Every candidate of every parse is well formed (C02, end to end on the model)

tokens of the initial stack carry in-range digit groups (`capture_in_range`) → every production keeps well-formedness
(`rules_preserve_ok`) → every element of every reachable production is well formed → every streamed candidate is
(`search_sound`) → latent anchoring keeps it (`applyLatent_ok`).
-/
namespace QuickAdd
open Gen

/-! ### tokens -/
theorem mem_insSorted {α} (lt : α → α → Bool) (x : α) : ∀ (l : List α) (y : α), y ∈ insSorted lt x l → y = x ∨ y ∈ l := by
  intro l
  induction l with
  | nil => intro y h; simp [insSorted] at h; exact Or.inl h
  | cons a as ih =>
    intro y h
    simp only [insSorted] at h
    split at h
    · rcases List.mem_cons.mp h with h | h
      · exact Or.inl h
      · exact Or.inr h
    · rcases List.mem_cons.mp h with h | h
      · exact Or.inr (by simp [h])
      · rcases ih y h with h | h
        · exact Or.inl h
        · exact Or.inr (List.mem_cons_of_mem _ h)

theorem mem_sortBy {α} (lt : α → α → Bool) (l : List α) (y : α) (h : y ∈ sortBy lt l) : y ∈ l := by
  unfold sortBy at h
  have gen : ∀ (l acc : List α), y ∈ l.foldl (fun acc x => insSorted lt x acc) acc → y ∈ acc ∨ y ∈ l := by
    intro l
    induction l with
    | nil => intro acc h; exact Or.inl h
    | cons x xs ih =>
      intro acc h
      simp only [List.foldl_cons] at h
      rcases ih _ h with h | h
      · rcases mem_insSorted lt x acc y h with h | h
        · exact Or.inr (by simp [h])
        · exact Or.inl h
      · exact Or.inr (List.mem_cons_of_mem _ h)
  rcases gen l [] h with h | h
  · simp at h
  · exact h

theorem getCap_mem (cs : Caps) (i a b : Nat) (h : getCap cs i = some (a, b)) : (i, a, b) ∈ cs := by
  unfold getCap at h
  cases hf : cs.find? (fun c => c.1 == i) with
  | none => simp [hf] at h
  | some c =>
    obtain ⟨j, s, e⟩ := c
    simp [hf] at h
    have hm := List.mem_of_find?_eq_some hf
    have hp := List.find?_some hf
    simp at hp
    obtain ⟨rfl, rfl⟩ := h
    subst hp
    exact hm

/-- a token built from a match of a shipped pattern carries in-range day/month/hour/minute groups -/
theorem tokOfMatch_ok (p : Pat) (hp : p ∈ table) (txt : List Nat) (m : Nat × Nat × Caps) (hm : m ∈ findAll rxTabs p.rx txt) :
    (tokOfMatch p txt m).v.Ok := by
  obtain ⟨s, e, cs⟩ := m
  show TokOk _
  intro n lo hi w hf hg
  unfold Tok.group at hg
  simp only [tokOfMatch] at hg
  generalize hcaps : sortBy (fun (a b : String × List Nat) => decide (a.1 < b.1)) _ = caps at hg
  cases hfd : caps.find? (·.1 == n) with
  | none => simp [hfd] at hg
  | some nw =>
    obtain ⟨n', w'⟩ := nw
    simp [hfd] at hg
    subst hg
    have hmem := List.mem_of_find?_eq_some hfd
    have hn' := List.find?_some hfd
    simp at hn'
    subst hn'
    rw [← hcaps] at hmem
    have hmem2 := mem_sortBy _ _ _ hmem
    simp only [List.mem_filterMap] at hmem2
    obtain ⟨⟨n0, i⟩, hni, hx⟩ := hmem2
    simp only at hx
    split at hx
    · simp at hx
    · cases hc : getCap cs i with
      | none => simp [hc] at hx
      | some ab =>
        obtain ⟨a, b⟩ := ab
        simp [hc] at hx
        obtain ⟨rfl, rfl⟩ := hx
        have := capture_in_range p hp _ i hni lo hi hf txt (s, e, cs) hm a b (getCap_mem cs i a b hc)
        simpa [slice] using this

theorem matchRegex_ok (txt : List Nat) : ∀ a ∈ matchRegex txt, a.v.Ok := by
  intro a ha
  unfold matchRegex at ha
  have h1 := mem_sortBy _ _ _ ha
  simp only [List.mem_flatMap, List.mem_map] at h1
  obtain ⟨p, hp, m, hm, rfl⟩ := h1
  exact tokOfMatch_ok p hp txt m hm

theorem regexStack_mem (txt : List Nat) (toks : List Art) (fuel : Nat) : ∀ s ∈ (regexStack txt toks fuel).1, ∀ a ∈ s, a ∈ toks := by
  intro s hs a ha
  unfold regexStack at hs
  simp only [List.mem_map] at hs
  obtain ⟨p, _, rfl⟩ := hs
  simp only [List.mem_filterMap] at ha
  obtain ⟨i, _, hi⟩ := ha
  exact List.mem_of_getElem? hi

/-- all elements of all productions of the initial stack are well formed -/
theorem initialStack_ok {S : Type} (sc : Scorer S) (depth num den : Nat) (txt : List Nat) (fuel : Nat) :
    ∀ e ∈ (initialStack sc depth num den txt fuel).1, (∀ a ∈ e.prod, a.v.Ok) ∧ ∀ r ∈ e.rules, r ∈ ruleSigs := by
  intro e he
  unfold initialStack at he
  simp only at he
  have h1 := mem_trunc _ _ _ he
  have h2 := (List.mem_filter.mp h1).1
  have h3 := mem_sortE _ _ _ h2
  simp only [List.mem_map] at h3
  obtain ⟨s, hs, rfl⟩ := h3
  refine ⟨fun a ha => matchRegex_ok txt a (regexStack_mem txt _ fuel s hs a ha), ?_⟩
  intro r hr
  exact (List.mem_filter.mp hr).1

/-! ### one derivation step -/
/-- the registered signature of the two interval productions that do not compare their ends starts with the predicate that
    makes the first end date-less (evaluated over the regenerated signature table) -/
theorem sig_TODTOD : ∀ r ∈ ruleSigs, RuleId.ofName r.1 = some .ruleTODTOD → r.2.head? = some (.attr "isTOD") := by decide +kernel
theorem sig_PODPOD : ∀ r ∈ ruleSigs, RuleId.ofName r.1 = some .rulePODPOD → r.2.head? = some (.attr "isPOD") := by decide +kernel

theorem argsPred_of_window (r : String × List Pred) (hr : r ∈ ruleSigs) (rid : RuleId) (hid : RuleId.ofName r.1 = some rid)
    (w : List Art) (hp : (List.zipWith predHolds r.2 w).all id = true) : ArgsPred rid (w.map (·.v)) := by
  by_cases h1 : rid = .ruleTODTOD
  · subst h1
    have hs := sig_TODTOD r hr hid
    rcases w with _ | ⟨a, _ | ⟨b, _ | ⟨c, _ | ⟨d, rest⟩⟩⟩⟩ <;> try (simp [ArgsPred]; done)
    cases hr2 : r.2 with
    | nil => simp [hr2] at hs
    | cons p ps =>
      simp [hr2] at hs; subst hs
      cases hav : a.v <;> simp [ArgsPred, hav]
      simp [hr2, predHolds, hav] at hp
      exact hp.1
  · by_cases h2 : rid = .rulePODPOD
    · subst h2
      have hs := sig_PODPOD r hr hid
      rcases w with _ | ⟨a, _ | ⟨b, _ | ⟨c, _ | ⟨d, rest⟩⟩⟩⟩ <;> try (simp [ArgsPred]; done)
      cases hr2 : r.2 with
      | nil => simp [hr2] at hs
      | cons p ps =>
        simp [hr2] at hs; subst hs
        cases hav : a.v <;> simp [ArgsPred, hav]
        simp [hr2, predHolds, hav] at hp
        exact hp.1
    · cases rid <;> first | (exact absurd rfl h1) | (exact absurd rfl h2) | (simp [ArgsPred])

theorem applyRule_ok (r : String × List Pred) (hr : r ∈ ruleSigs) (ts : Ts) (hts : ts.Valid) (args : List Art)
    (hp : (List.zipWith predHolds r.2 args).all id = true) (hargs : ∀ a ∈ args, a.v.Ok) (x : Art)
    (h : applyRule r.1 ts args = .ok (some x)) : x.v.Ok := by
  unfold applyRule at h
  cases hrw : applyRaw r.1 ts (args.map (·.v)) with
  | error e => simp [hrw, bind, Except.bind] at h
  | ok o =>
    cases o with
    | none => simp [hrw, bind, Except.bind, pure, Except.pure] at h
    | some v =>
      simp only [hrw, bind, Except.bind, pure, Except.pure] at h
      have hv : v.Ok := by
        unfold applyRaw at hrw
        cases hn : RuleId.ofName r.1 with
        | none => simp [hn, throw, throwThe, MonadExceptOf.throw] at hrw
        | some rid =>
          simp only [hn] at hrw
          refine rules_preserve_ok rid ts hts _ ?_ (argsPred_of_window r hr rid hn args hp) v hrw
          intro a ha
          simp only [List.mem_map] at ha
          obtain ⟨b, hb, rfl⟩ := ha
          exact hargs b hb
      split at h
      · simp at h
      · split at h
        · simp at h; subst h; exact hv
        · simp [throw, throwThe, MonadExceptOf.throw] at h

theorem expand_ok (ts : Ts) (hts : ts.Valid) (rules : List (String × List Pred)) (hrules : ∀ r ∈ rules, r ∈ ruleSigs)
    (prod : List Art) (trace : List String)
    (out : List (List Art × List String × Nat)) (h : expandArts ts rules prod trace = .ok out) (hp : ∀ a ∈ prod, a.v.Ok) :
    ∀ s ∈ out, ∀ a ∈ s.1, a.v.Ok := by
  intro s hs a ha
  obtain ⟨r, hr, i, hi, x, hx, rfl⟩ := expand_sound ts rules prod trace out h s hs
  have hwin := (window_sound prod r.2 i hi).2.2.1
  simp only [List.mem_append, List.mem_cons] at ha
  rcases ha with ha | rfl | ha
  · exact hp a (List.mem_of_mem_take ha)
  · exact applyRule_ok r (hrules r hr) ts hts _ hwin (fun b hb => hp b (List.mem_of_mem_drop (List.mem_of_mem_take hb))) _ hx
  · exact hp a (List.mem_of_mem_drop ha)

/-- every element of every reachable production is well formed -/
theorem reach_ok {S : Type} (sc : Scorer S) (ts : Ts) (hts : ts.Valid) (depth : Nat) (txt : List Nat) (init : List (E Art S))
    (hinit : ∀ e ∈ init, (∀ a ∈ e.prod, a.v.Ok) ∧ ∀ r ∈ e.rules, r ∈ ruleSigs) (p : List Art) (t : List String) (rules : List (String × List Pred))
    (hr : ReachE (mkCfg sc ts depth txt) init p t rules) : (∀ a ∈ p, a.v.Ok) ∧ ∀ r ∈ rules, r ∈ ruleSigs := by
  induction hr with
  | init hm => exact hinit _ hm
  | step _ hexp hmem ih => exact ⟨expand_ok ts hts _ ih.2 _ _ _ hexp ih.1 _ hmem, ih.2⟩

/-! ### latent anchoring -/
theorem latentTod_ok (ts : Ts) (hts : ts.Valid) (tod r : Time) (h : latentTod ts tod = .ok r) : r.Ok := by
  unfold latentTod at h
  cases hh : tod.hour with
  | none => simp [hh, need, bind, Except.bind, throw, throwThe, MonadExceptOf.throw] at h
  | some x =>
    simp only [hh, need, bind, Except.bind, pure, Except.pure] at h
    generalize hmi : tod.minute.getD 0 = mi at h
    cases hin : inDay x mi with
    | false => simp [hin, throw, throwThe, MonadExceptOf.throw] at h
    | true =>
      simp only [hin, Bool.not_true, Bool.false_eq_true, if_false] at h
      generalize hd0 : (if x * 60 + mi ≤ ts.h * 60 + ts.mi then ts.date.addDays 1 else ts.date) = d0 at h
      cases hc : dateOk d0 with
      | error e => simp [hc] at h
      | ok d =>
        simp [hc] at h; subst h
        have hv : d.Valid := by
          subst hd0; split at hc
          · exact dateOk_valid_ofOrd _ d hc
          · rw [dateOk_eq _ _ hc]; exact hts.1
        have h1 := tsTime_ok d hv
        unfold tsTime at h1
        unfold inDay at hin
        simp only [Bool.and_eq_true, decide_eq_true_eq] at hin
        refine ⟨fun y hy => h1.month y hy, fun y hy => h1.day y hy, ?_, ?_, ?_, ?_⟩ <;> intro y hy <;> simp at hy <;> omega

theorem latentInterval_ok (ts : Ts) (hts : ts.Valid) (a b : Time) (v : Val) (h : latentInterval ts a b = .ok v) : v.Ok := by
  unfold latentInterval at h
  cases h1 : a.hour with
  | none => simp [h1, need, bind, Except.bind, throw, throwThe, MonadExceptOf.throw] at h
  | some x1 =>
    cases h2 : b.hour with
    | none => simp [h1, h2, need, bind, Except.bind, pure, Except.pure, throw, throwThe, MonadExceptOf.throw] at h
    | some x2 =>
      simp only [h1, h2, need, bind, Except.bind, pure, Except.pure] at h
      generalize hm1 : a.minute.getD 0 = m1 at h
      generalize hm2 : b.minute.getD 0 = m2 at h
      cases hin : (inDay x1 m1 && inDay x2 m2) with
      | false => simp [hin, throw, throwThe, MonadExceptOf.throw] at h
      | true =>
        simp only [hin, Bool.not_true, Bool.false_eq_true, if_false] at h
        simp only [Bool.and_eq_true] at hin
        obtain ⟨i1, i2⟩ := hin
        unfold inDay at i1 i2
        simp only [Bool.and_eq_true, decide_eq_true_eq] at i1 i2
        generalize hsh : (if x1 * 60 + m1 ≤ ts.h * 60 + ts.mi then (1 : Int) else 0) = shift at h
        cases hc1 : dateOk (ts.date.addDays shift) with
        | error e => simp [hc1] at h
        | ok dF =>
          simp only [hc1] at h
          generalize hdT : (if x2 * 60 + m2 ≤ x1 * 60 + m1 then (ts.date.addDays shift).addDays 1 else ts.date.addDays shift) = dT0 at h
          cases hc2 : dateOk dT0 with
          | error e => simp [hc2] at h
          | ok dT =>
            simp [hc2] at h; subst h
            have hvF : dF.Valid := dateOk_valid_ofOrd _ dF hc1
            have hvT : dT.Valid := by
              subst hdT; split at hc2 <;> exact dateOk_valid_ofOrd _ dT hc2
            have hF := tsTime_ok dF hvF
            have hT := tsTime_ok dT hvT
            unfold tsTime at hF hT
            refine ⟨?_, ?_, ?_⟩
            · apply optOk_some
              refine ⟨fun y hy => hF.month y hy, fun y hy => hF.day y hy, ?_, ?_, ?_, ?_⟩ <;> intro y hy <;> simp at hy <;> omega
            · apply optOk_some
              refine ⟨fun y hy => hT.month y hy, fun y hy => hT.day y hy, ?_, ?_, ?_, ?_⟩ <;> intro y hy <;> simp at hy <;> omega
            · -- the anchored end is after the anchored start: a later clock on the same day, or the next day
              apply ivOrd_of_cmp
              intro D1 D2 s1 n1 s2 n2 e1 e2 c1 c2 _ _ _ _ _ _ _ _
              have eD1 : D1 = dF := by
                unfold dateOf at e1; simp only at e1; split at e1 <;> cases e1; rfl
              have eD2 : D2 = dT := by
                unfold dateOf at e2; simp only at e2; split at e2 <;> cases e2; rfl
              subst eD1; subst eD2
              rw [startClock_of_hour _ x1 rfl] at c1
              rw [endClock_of_hour _ x2 rfl] at c2
              simp only [Option.getD_some, Option.some.injEq, Prod.mk.injEq] at c1 c2
              obtain ⟨rfl, rfl⟩ := c1
              obtain ⟨rfl, rfl⟩ := c2
              have rF := dateOk_eq _ _ hc1
              have rT := dateOk_eq _ _ hc2
              have iT := dateOk_inRange _ _ hc2
              by_cases hle : x2 * 60 + m2 ≤ x1 * 60 + m1
              · left
                simp only [hle, if_true] at hdT
                subst hdT
                have := (ofOrd_inRange_ord _ iT).2
                rw [rT, rF]
                unfold Date.addDays at this ⊢
                omega
              · right
                simp only [hle, if_false] at hdT
                subst hdT
                rw [rT, rF]
                exact ⟨rfl, by omega⟩

theorem applyLatent_ok (ts : Ts) (hts : ts.Valid) (a b : Art) (ha : a.v.Ok) (h : applyLatent ts a = .ok b) : b.v.Ok := by
  unfold applyLatent at h
  split at h
  · rename_i t hv
    split at h
    · cases hl : latentTod ts t with
      | error e => simp [hl, bind, Except.bind] at h
      | ok r => simp [hl, bind, Except.bind, pure, Except.pure] at h; subst h; exact latentTod_ok ts hts t r hl
    · simp [pure, Except.pure] at h; subst h; exact ha
  · rename_i f t hv
    split at h
    · cases hl : latentInterval ts f t with
      | error e => simp [hl, bind, Except.bind] at h
      | ok r => simp [hl, bind, Except.bind, pure, Except.pure] at h; subst h; exact latentInterval_ok ts hts f t r hl
    · simp [pure, Except.pure] at h; subst h; exact ha
  · simp [pure, Except.pure] at h; subst h; exact ha

theorem latentAll_ok {S : Type} (ts : Ts) (hts : ts.Valid) : ∀ (cs : List (Cand S)), (∀ c ∈ cs, c.res.v.Ok) → ∀ c ∈ (latentAll ts cs).1, c.res.v.Ok := by
  intro cs
  induction cs with
  | nil => intro _ c hc; simp [latentAll] at hc
  | cons c0 cs ih =>
    intro hall c hc
    simp only [latentAll] at hc
    cases hl : applyLatent ts c0.res with
    | error e => simp [hl] at hc
    | ok r =>
      simp only [hl] at hc
      rcases List.mem_cons.mp hc with rfl | hc
      · exact applyLatent_ok ts hts c0.res r (hall c0 (by simp)) hl
      · exact ih (fun c hc => hall c (List.mem_cons_of_mem _ hc)) c hc

end QuickAdd
