import QuickAdd.Lemmas.LexTotalAll
import QuickAdd.Lemmas.ExpandRespects
/-!
# The candidate stream does not end in an exception (C01, end to end on the model)

Every production is total on the windows of reachable productions (`value_rules_total`, `lexical_rules_total`), so every
expansion succeeds (`expand_total`), and the worklist loop has no other failing operation (`run_err_reach`).
-/
namespace QuickAdd
open Gen

theorem foldOpt_ok {β γ : Type} (g : β → Except PyErr (Option γ)) : ∀ (ws : List β) (acc : List γ),
    (∀ i ∈ ws, ∃ o, g i = .ok o) → ∃ out, foldOpt g ws acc = .ok out := by
  intro ws
  induction ws with
  | nil => intro acc _; exact ⟨acc, rfl⟩
  | cons i is ih =>
    intro acc h
    obtain ⟨o, ho⟩ := h i (by simp)
    simp only [foldOpt, ho]
    cases o with
    | none => exact ih acc (fun j hj => h j (List.mem_cons_of_mem _ hj))
    | some s => exact ih _ (fun j hj => h j (List.mem_cons_of_mem _ hj))

theorem foldAppend_ok {β γ : Type} (g : β → Except PyErr (List γ)) : ∀ (rs : List β) (acc : List γ),
    (∀ r ∈ rs, ∃ o, g r = .ok o) → ∃ out, foldAppend g rs acc = .ok out := by
  intro rs
  induction rs with
  | nil => intro acc _; exact ⟨acc, rfl⟩
  | cons r rs ih =>
    intro acc h
    obtain ⟨o, ho⟩ := h r (by simp)
    simp only [foldAppend, ho]
    exact ih _ (fun j hj => h j (List.mem_cons_of_mem _ hj))

theorem names_modelled_tab : (ruleSigs.all fun r => (RuleId.ofName r.1).isSome) = true := by decide +kernel

theorem names_modelled : ∀ r ∈ ruleSigs, ∃ rid, RuleId.ofName r.1 = some rid := by
  intro r hr
  exact C01.some_of_isSome (List.all_eq_true.mp names_modelled_tab r hr)

def isOneRegex : List Pred → Bool
  | [.regex _] => true
  | _ => false

/-- a token reader's registered signature is one pattern -/
theorem lex_sigs_tab : (ruleSigs.all fun r => match RuleId.ofName r.1 with
    | some rid => !lexRules.contains rid || isOneRegex r.2
    | none => true) = true := by decide +kernel

theorem lex_sigs (r : String × List Pred) (hr : r ∈ ruleSigs) (rid : RuleId) (hid : RuleId.ofName r.1 = some rid) (hx : rid ∈ lexRules) :
    ∃ n, r.2 = [.regex n] := by
  have h := List.all_eq_true.mp lex_sigs_tab r hr
  simp only [hid] at h
  have hc : lexRules.contains rid = true := by simpa using hx
  simp only [hc, Bool.not_true, Bool.false_or] at h
  unfold isOneRegex at h
  split at h
  · rename_i n hn; exact ⟨n, hn⟩
  · cases h

theorem mem_all_of_ofName (n : String) (rid : RuleId) (h : RuleId.ofName n = some rid) : (n, rid) ∈ RuleId.all := by
  unfold RuleId.ofName at h
  cases hf : RuleId.all.find? (·.1 == n) with
  | none => simp [hf] at h
  | some e =>
    simp only [hf, Option.map_some, Option.some.injEq] at h
    have hm := List.mem_of_find?_eq_some hf
    have hp := List.find?_some hf
    simp only [beq_iff_eq] at hp
    obtain ⟨e1, e2⟩ := e
    simp only at h hp
    subst h; subst hp
    exact hm

/-- what the invariants of reachable productions say about a window -/
structure WindowOk (txt : List Nat) (args : List Art) : Prop where
  ok : ∀ a ∈ args, a.v.Ok ∧ valCalOk a.v = true ∧ a.v.YearLe 9990
  toks : ∀ a ∈ args, a.isVal = false → a ∈ matchRegex txt
  ints : ∀ a ∈ args, ∀ k, a.v = .tok k → TokInt k

theorem isVal_false_of_tok (a : Art) (k : Tok) (h : a.v = .tok k) : a.isVal = false := by
  unfold Art.isVal; simp [h]

/-- **no production raises on a window of a reachable production** -/
theorem applyRule_total (r : String × List Pred) (hr : r ∈ ruleSigs) (ts : Ts) (hts : TsOk ts) (txt : List Nat) (args : List Art)
    (hl : args.length = r.2.length) (hp : (List.zipWith predHolds r.2 args).all id = true) (hne : r.2 ≠ []) (hw : WindowOk txt args) :
    ∃ o, applyRule r.1 ts args = .ok o := by
  obtain ⟨rid, hid⟩ := names_modelled r hr
  have hraw : ∃ o, applyId rid ts (args.map (·.v)) = .ok o := by
    rcases rules_partition (r.1, rid) (mem_all_of_ofName r.1 rid hid) with hv | hx
    · exact value_rules_total rid hv r hr hid ts hts args hl hp hw.ok
    · refine lexical_rules_total rid hx r hr hid ts hts txt args hl hp ?_ hw.ints
      -- the single argument of a token reader is a token (its signature is one pattern)
      intro a ha
      by_cases hv : a.isVal = true
      · exfalso
        -- a token reader's signature is `[.regex _]`: the argument is a token
        have hsig : ∃ n, r.2 = [.regex n] := lex_sigs r hr rid hid hx
        obtain ⟨n, hn⟩ := hsig
        rw [hn] at hl hp
        rcases args with _ | ⟨a1, _ | ⟨x, rest⟩⟩ <;> simp at hl
        simp only [List.zipWith, List.all_cons, List.all_nil, id, Bool.and_true] at hp
        obtain ⟨k1, hv1⟩ := pred_regex _ a1 hp
        simp only [List.mem_singleton] at ha; subst ha
        rw [isVal_false_of_tok a k1 hv1] at hv; cases hv
      · exact hw.toks a ha (by simpa using hv)
  obtain ⟨o, ho⟩ := hraw
  unfold applyRule applyRaw
  simp only [hid, ho, bind, Except.bind, pure, Except.pure]
  cases o with
  | none => exact ⟨_, rfl⟩
  | some v =>
    simp only
    split
    · exact ⟨_, rfl⟩
    · have hne' : args ≠ [] := by
        intro e; rw [e] at hl; simp at hl; exact hne (List.length_eq_zero_iff.mp hl.symm)
      cases hh : args.head? with
      | none => simp [List.head?_eq_none_iff] at hh; exact absurd hh hne'
      | some a =>
        cases hg : args.getLast? with
        | none => simp [List.getLast?_eq_none_iff] at hg; exact absurd hg hne'
        | some b => exact ⟨_, rfl⟩

/-- every expansion of a production whose windows are fine succeeds -/
theorem expand_total (ts : Ts) (hts : TsOk ts) (txt : List Nat) (rules : List (String × List Pred)) (hrules : ∀ r ∈ rules, r ∈ ruleSigs)
    (prod : List Art) (trace : List String) (hw : WindowOk txt prod) : ∃ out, expandArts ts rules prod trace = .ok out := by
  unfold expandArts
  apply foldAppend_ok
  intro r hr
  unfold expandRule
  apply foldOpt_ok
  intro i hi
  obtain ⟨_, hlen, hpred, hne⟩ := window_sound prod r.2 i hi
  have hsub : ∀ a ∈ (prod.drop i).take r.2.length, a ∈ prod := fun a ha => List.mem_of_mem_drop (List.mem_of_mem_take ha)
  obtain ⟨o, ho⟩ := applyRule_total r (hrules r hr) ts hts txt _ hlen hpred hne
    ⟨fun a ha => hw.ok a (hsub a ha), fun a ha => hw.toks a (hsub a ha), fun a ha => hw.ints a (hsub a ha)⟩
  unfold applyAt
  simp only [ho, bind, Except.bind, pure, Except.pure]
  cases o <;> exact ⟨_, rfl⟩

/-- an exception that ends the loop is the exception of the expansion of a **reachable** production (or the fuel marker) -/
theorem run_err_reach {α S : Type} (c : Cfg α S) (init : List (E α S)) : ∀ (f : Nat) (budget : Option Nat) (stack : List (E α S))
    (seen : List (List α × S)) (em : List (α × S)) (e : PyErr),
    (∀ x ∈ stack, ReachE c init x.prod x.trace x.rules) →
    (run c f budget stack seen em).2 = some e → e = .unmodelled ∨ ∃ rules p t, ReachE c init p t rules ∧ c.expand rules p t = .error e := by
  intro f
  induction f with
  | zero => intro _ _ _ _ e _ h; simp [run] at h; exact Or.inl h.symm
  | succ f ih =>
    intro budget stack seen em e hinv h
    simp only [run] at h
    cases hs : stack.reverse with
    | nil => simp [hs] at h
    | cons s restRev =>
      simp only [hs] at h
      have hsmem : s ∈ stack := by
        have : s ∈ stack.reverse := by rw [hs]; simp
        exact List.mem_reverse.mp this
      have hrest : ∀ x ∈ restRev.reverse, x ∈ stack := by
        intro x hx
        have : x ∈ stack.reverse := by rw [hs]; exact List.mem_cons_of_mem _ (List.mem_reverse.mp hx)
        exact List.mem_reverse.mp this
      split at h
      · simp at h
      · cases he : c.expand s.rules s.prod s.trace with
        | error e' =>
          simp only [he] at h
          simp at h; subst h
          exact Or.inr ⟨_, _, _, hinv s hsmem, he⟩
        | ok succs =>
          simp only [he] at h
          have hs_reach := hinv s hsmem
          split at h
          · exact ih _ _ _ _ e (fun x hx => hinv x (hrest x hx)) h
          · apply ih _ _ _ _ e _ h
            intro x hx
            have h1 := mem_sortE c.lt _ x (mem_trunc c.depth _ x hx)
            rcases List.mem_append.mp h1 with h2 | h2
            · exact hinv x (hrest x h2)
            · obtain ⟨hr, n, hm⟩ := mem_pushNew c s.rules succs seen x h2
              rw [hr]
              exact ReachE.step hs_reach he hm

/-! ### latent-time post-processing of the candidates -/
theorem tomorrow_inRange (ts : Ts) (h : TsOk ts) (k : Int) (hk : 0 ≤ k ∧ k ≤ 2) : (ts.date.addDays k).inRange = true ∧ (ts.date.addDays k).Valid := by
  obtain ⟨o1, o2⟩ := h.ord
  obtain ⟨av, ao⟩ := addDays_spec ts.date k (by omega) (by omega)
  exact ⟨C03.inRange_of_ord _ av (by omega) (by omega), av⟩

theorem ts_inRange (ts : Ts) (h : TsOk ts) : ts.date.inRange = true := by
  simp only [Date.inRange, Bool.and_eq_true, decide_eq_true_eq]; have := h.lo; have := h.hi; omega

theorem dateOk_ok (d : Date) (h : d.inRange = true) : dateOk d = .ok d := by
  simp only [dateOk, h, if_true, pure, Except.pure]

theorem latentTod_total (ts : Ts) (h : TsOk ts) (t : Time) (hq : t.isTOD = true) (ok : t.Ok) : ∃ r, latentTod ts t = .ok r := by
  obtain ⟨x, ex⟩ := hour_of t hq
  have hx := ok.hour x ex
  have hmi : 0 ≤ t.minute.getD 0 ∧ t.minute.getD 0 ≤ 59 := by
    cases hm : t.minute with
    | none => simp
    | some m => have := ok.minute m hm; simpa using this
  have hin : inDay x (t.minute.getD 0) = true := by simp [inDay]; omega
  unfold latentTod
  simp only [ex, need, hin, bind, Except.bind, pure, Except.pure, Bool.not_true, Bool.false_eq_true, if_false]
  by_cases hc : x * 60 + t.minute.getD 0 ≤ ts.h * 60 + ts.mi
  · simp only [hc, if_true, dateOk_ok _ (tomorrow_inRange ts h 1 (by omega)).1]; exact ⟨_, rfl⟩
  · simp only [hc, if_false, dateOk_ok _ (ts_inRange ts h)]; exact ⟨_, rfl⟩

theorem addDays_addDays_inRange (ts : Ts) (h : TsOk ts) (k : Int) (hk : 0 ≤ k ∧ k ≤ 1) : ((ts.date.addDays k).addDays 1).inRange = true := by
  obtain ⟨o1, o2⟩ := h.ord
  obtain ⟨av, ao⟩ := addDays_spec ts.date k (by omega) (by omega)
  obtain ⟨bv, bo⟩ := addDays_spec (ts.date.addDays k) 1 (by omega) (by omega)
  exact C03.inRange_of_ord _ bv (by omega) (by omega)

theorem latentInterval_total (ts : Ts) (h : TsOk ts) (a b : Time) (ha : a.isTOD = true) (hb : b.isTOD = true) (oa : a.Ok) (ob : b.Ok) :
    ∃ r, latentInterval ts a b = .ok r := by
  obtain ⟨x1, e1⟩ := hour_of a ha
  obtain ⟨x2, e2⟩ := hour_of b hb
  have h1 := oa.hour x1 e1
  have h2 := ob.hour x2 e2
  have m1 : 0 ≤ a.minute.getD 0 ∧ a.minute.getD 0 ≤ 59 := by
    cases hm : a.minute with
    | none => simp
    | some m => have := oa.minute m hm; simpa using this
  have m2 : 0 ≤ b.minute.getD 0 ∧ b.minute.getD 0 ≤ 59 := by
    cases hm : b.minute with
    | none => simp
    | some m => have := ob.minute m hm; simpa using this
  have hin : (inDay x1 (a.minute.getD 0) && inDay x2 (b.minute.getD 0)) = true := by simp [inDay]; omega
  unfold latentInterval
  simp only [e1, e2, need, hin, bind, Except.bind, pure, Except.pure, Bool.not_true, Bool.false_eq_true, if_false]
  by_cases hs : x1 * 60 + a.minute.getD 0 ≤ ts.h * 60 + ts.mi
  · simp only [hs, if_true]
    have r1 := dateOk_ok _ (tomorrow_inRange ts h 1 (by omega)).1
    have r2 := dateOk_ok _ (addDays_addDays_inRange ts h 1 (by omega))
    by_cases hc : x2 * 60 + b.minute.getD 0 ≤ x1 * 60 + a.minute.getD 0
    · simp only [hc, if_true, r1, r2]; exact ⟨_, rfl⟩
    · simp only [hc, if_false, r1]; exact ⟨_, rfl⟩
  · simp only [hs, if_false]
    have r1 := dateOk_ok _ (tomorrow_inRange ts h 0 (by omega)).1
    have r2 := dateOk_ok _ (addDays_addDays_inRange ts h 0 (by omega))
    by_cases hc : x2 * 60 + b.minute.getD 0 ≤ x1 * 60 + a.minute.getD 0
    · simp only [hc, if_true, r1, r2]; exact ⟨_, rfl⟩
    · simp only [hc, if_false, r1]; exact ⟨_, rfl⟩

theorem applyLatent_total (ts : Ts) (h : TsOk ts) (a : Art) (ok : a.v.Ok) : ∃ r, applyLatent ts a = .ok r := by
  unfold applyLatent
  split
  · rename_i t hv
    rw [hv] at ok
    split
    · rename_i hq
      obtain ⟨r, hr⟩ := latentTod_total ts h t hq ok
      simp only [hr, bind, Except.bind, pure, Except.pure]; exact ⟨_, rfl⟩
    · exact ⟨_, rfl⟩
  · rename_i f t hv
    rw [hv] at ok
    split
    · rename_i hq
      simp only [Bool.and_eq_true] at hq
      obtain ⟨r, hr⟩ := latentInterval_total ts h f t hq.1 hq.2 (ok.1 f rfl) (ok.2.1 t rfl)
      simp only [hr, bind, Except.bind, pure, Except.pure]; exact ⟨_, rfl⟩
    · exact ⟨_, rfl⟩
  · exact ⟨_, rfl⟩

theorem latentAll_total {S : Type} (ts : Ts) (h : TsOk ts) : ∀ (cs : List (Cand S)), (∀ c ∈ cs, c.res.v.Ok) → (latentAll ts cs).2 = none := by
  intro cs
  induction cs with
  | nil => intro _; rfl
  | cons c0 cs ih =>
    intro hall
    obtain ⟨r, hr⟩ := applyLatent_total ts h c0.res (hall c0 (by simp))
    simp only [latentAll, hr]
    exact ih (fun c hc => hall c (List.mem_cons_of_mem _ hc))

end QuickAdd
