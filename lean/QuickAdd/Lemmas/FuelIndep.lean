import QuickAdd.Model.Search
/-!
# The model's fuel is a technical device: a run that ended cleanly does not depend on it

`run` and the DFS over the match graph take a fuel argument (Lean needs structural recursion; the Python loops have none).
If the DFS finished within its fuel (`dfsFinished`: it counts its iterations) and the main loop ended without an exception and without running out of
fuel (`err = none`), every larger fuel gives the identical result.  Termination itself (some fuel suffices) is *not* proved.
-/
namespace QuickAdd

/-- the main loop with more fuel: identical, once it ended cleanly -/
theorem run_fuel_indep {α S : Type} (c : Cfg α S) : ∀ (f : Nat) (budget : Option Nat) (stack : List (E α S)) (seen : List (List α × S))
    (em : List (α × S)), (run c f budget stack seen em).2 = none → ∀ k, run c (f + k) budget stack seen em = run c f budget stack seen em := by
  intro f
  induction f with
  | zero => intro budget stack seen em h; simp [run] at h
  | succ f ih =>
    intro budget stack seen em h k
    have e : f + 1 + k = (f + k) + 1 := by omega
    rw [e]
    simp only [run] at h ⊢
    split
    · rfl
    · rename_i s restRev hrev
      simp only [hrev] at h
      split
      · rfl
      · rename_i hb
        simp only [hb, if_false] at h
        split
        · rfl
        · rename_i succs hexp
          simp only [hexp] at h
          split
          · rename_i hemp
            simp only [hemp, if_true] at h
            rw [ih _ _ _ _ h k]
          · rename_i hemp
            simp only [hemp, if_false] at h
            rw [ih _ _ _ _ h k]

/-- the DFS counts its iterations; it finished within its fuel if it made fewer than `f` of them -/
theorem regexStackGo_fuel_indep (txt : List Nat) (toks : Array Art) : ∀ (f : Nat) (stack acc : List (List Nat)) (n : Nat),
    (regexStackGo txt toks f stack acc n).2 < n + f → ∀ k, regexStackGo txt toks (f + k) stack acc n = regexStackGo txt toks f stack acc n := by
  intro f
  induction f with
  | zero => intro stack acc n h k; simp [regexStackGo] at h
  | succ f ih =>
    intro stack acc n h k
    have e : f + 1 + k = (f + k) + 1 := by omega
    rw [e]
    cases stack with
    | nil => simp [regexStackGo]
    | cons s st =>
      cases s with
      | nil =>
        simp only [regexStackGo] at h ⊢
        exact ih _ _ _ (by omega) k
      | cons i r =>
        simp only [regexStackGo] at h ⊢
        split
        · rename_i hemp
          rw [if_pos hemp] at h
          exact ih _ _ _ (by omega) k
        · rename_i hemp
          rw [if_neg hemp] at h
          exact ih _ _ _ (by omega) k

/-- the DFS over the matches of `txt` finished within `fuel` (it made fewer iterations than it was allowed) -/
def dfsFinished (txt : List Nat) (fuel : Nat) : Bool := decide ((regexStackIdx txt (matchRegex txt) fuel).2 < fuel)

theorem regexStack_fuel_indep (txt : List Nat) (fuel : Nat) (h : dfsFinished txt fuel = true) (k : Nat) :
    regexStack txt (matchRegex txt) (fuel + k) = regexStack txt (matchRegex txt) fuel := by
  unfold dfsFinished at h
  simp only [decide_eq_true_eq] at h
  unfold regexStackIdx at h
  unfold regexStack regexStackIdx
  simp only at h ⊢
  rw [regexStackGo_fuel_indep txt _ fuel _ [] 0 (by omega) k]

theorem initialStack_fuel_indep {S : Type} (sc : Scorer S) (depth num den : Nat) (txt : List Nat) (fuel : Nat) (h : dfsFinished txt fuel = true) (k : Nat) :
    initialStack sc depth num den txt (fuel + k) = initialStack sc depth num den txt fuel := by
  unfold initialStack
  simp only
  rw [regexStack_fuel_indep txt fuel h k]

/-- **the candidate stream does not depend on the fuel once it sufficed** -/
theorem searchCore_fuel_indep {S : Type} (sc : Scorer S) (ts : Ts) (o : Opts) (txt : List Nat) (fuel : Nat) (hd : dfsFinished txt fuel = true)
    (he : (searchCore sc ts o txt fuel).1.2 = none) (k : Nat) : searchCore sc ts o txt (fuel + k) = searchCore sc ts o txt fuel := by
  unfold searchCore at he ⊢
  simp only at he ⊢
  rw [initialStack_fuel_indep sc _ _ _ txt fuel hd k]
  split
  · rfl
  · rename_i hx
    simp only [hx] at he
    rw [run_fuel_indep _ fuel _ _ _ _ he k]

theorem ctparseGen_fuel_indep {S : Type} (sc : Scorer S) (ts : Ts) (o : Opts) (raw : List Nat) (fuel : Nat)
    (hd : dfsFinished (stripLabels (preprocess raw)) fuel = true)
    (he : (searchCore sc ts o (stripLabels (preprocess raw)) fuel).1.2 = none) (k : Nat) :
    ctparseGen sc ts o raw (fuel + k) = ctparseGen sc ts o raw fuel := by
  unfold ctparseGen
  simp only
  rw [searchCore_fuel_indep sc ts o _ fuel hd he k]

end QuickAdd
