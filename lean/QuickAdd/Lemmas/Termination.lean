import QuickAdd.Lemmas.SearchSound
/-!
# The worklist loop terminates: an explicit fuel bound (abstract part)

If every expansion of a reachable production yields at most `B` successors, each of strictly smaller measure `m`, then the
potential `Φ stack = Σ (B+1)^(m prod)` drops by at least one in every iteration of `run` (a popped element of measure `k` is
worth `(B+1)^k`, its at most `B` successors at most `B·(B+1)^(k-1)` together; sorting permutes, the depth cut and the dedup
tables only remove).  So with more fuel than `Φ` of the stack the loop never reaches its fuel marker: an error that ends it is
the error of an expansion.
-/
namespace QuickAdd
variable {α S : Type}

def sumBy {β : Type} (g : β → Nat) : List β → Nat
  | [] => 0
  | x :: xs => g x + sumBy g xs

theorem sumBy_append {β : Type} (g : β → Nat) (a b : List β) : sumBy g (a ++ b) = sumBy g a + sumBy g b := by
  induction a with
  | nil => simp [sumBy]
  | cons x xs ih => simp [sumBy, ih]; omega

theorem sumBy_reverse {β : Type} (g : β → Nat) (a : List β) : sumBy g a.reverse = sumBy g a := by
  induction a with
  | nil => rfl
  | cons x xs ih => simp [sumBy, sumBy_append, ih]; omega

theorem sumBy_drop_le {β : Type} (g : β → Nat) (n : Nat) (a : List β) : sumBy g (a.drop n) ≤ sumBy g a := by
  induction a generalizing n with
  | nil => simp [sumBy]
  | cons x xs ih =>
    cases n with
    | zero => simp
    | succ n => simp only [List.drop_succ_cons, sumBy]; have := ih n; omega

theorem sumBy_trunc_le {β : Type} (g : β → Nat) (d : Nat) (a : List β) : sumBy g (trunc d a) ≤ sumBy g a := by
  unfold trunc; split
  · exact Nat.le_refl _
  · exact sumBy_drop_le g _ a

theorem sumBy_ins (g : E α S → Nat) (lt : S → S → Bool) (x : E α S) (l : List (E α S)) : sumBy g (ins lt x l) = g x + sumBy g l := by
  induction l with
  | nil => rfl
  | cons y ys ih =>
    simp only [ins]
    split
    · rfl
    · simp only [sumBy, ih]; omega

theorem sumBy_foldl_ins (g : E α S → Nat) (lt : S → S → Bool) (l acc : List (E α S)) :
    sumBy g (l.foldl (fun acc x => ins lt x acc) acc) = sumBy g l + sumBy g acc := by
  induction l generalizing acc with
  | nil => simp [sumBy]
  | cons x xs ih => simp only [List.foldl_cons, ih, sumBy_ins, sumBy]; omega

theorem sumBy_sortE (g : E α S → Nat) (lt : S → S → Bool) (l : List (E α S)) : sumBy g (sortE lt l) = sumBy g l := by
  unfold sortE; rw [sumBy_foldl_ins]; simp [sumBy]

theorem sumBy_le_of_forall {β : Type} (g : β → Nat) (k : Nat) (l : List β) (h : ∀ x ∈ l, g x ≤ k) : sumBy g l ≤ l.length * k := by
  induction l with
  | nil => simp [sumBy]
  | cons x xs ih =>
    have h1 := h x List.mem_cons_self
    have h2 := ih (fun y hy => h y (List.mem_cons_of_mem _ hy))
    simp only [sumBy, List.length_cons, Nat.succ_mul]; omega

/-- `pushNew` on a non-empty list, with the dedup decision named -/
theorem pushNew_cons_ok (c : Cfg α S) (rules : List (String × List Gen.Pred)) (p : List α) (t : List String) (n : Nat)
    (rest : List (List α × List String × Nat)) (seen : List (List α × S)) :
    ∃ ok : Bool, pushNew c rules ((p, t, n) :: rest) seen =
      (if ok = true then
        ({ prod := p, trace := t, cov := n, score := c.scorer p t n, rules := rules } :: (pushNew c rules rest ((p, c.scorer p t n) :: seen)).1,
         (pushNew c rules rest ((p, c.scorer p t n) :: seen)).2)
       else pushNew c rules rest seen) := ⟨_, pushNew_cons c rules p t n rest seen⟩

/-- what the dedup tables let through is worth no more than all successors -/
theorem sumBy_pushNew (c : Cfg α S) (rules : List (String × List Gen.Pred)) (g : List α → Nat) :
    ∀ (succs : List (List α × List String × Nat)) (seen : List (List α × S)),
      sumBy (fun e : E α S => g e.prod) (pushNew c rules succs seen).1 ≤ sumBy (fun s : List α × List String × Nat => g s.1) succs := by
  intro succs
  induction succs with
  | nil => intro seen; simp [pushNew, sumBy]
  | cons hd tl ih =>
    intro seen
    obtain ⟨p, t, n⟩ := hd
    obtain ⟨ok, hok⟩ := pushNew_cons_ok c rules p t n tl seen
    rw [hok]
    cases ok with
    | true => simp only [if_true, sumBy]; have := ih ((p, c.scorer p t n) :: seen); omega
    | false => simp only [Bool.false_eq_true, if_false, sumBy]; have := ih seen; omega

theorem pow_step (B k : Nat) (hk : 1 ≤ k) : B * (B + 1) ^ (k - 1) + 1 ≤ (B + 1) ^ k := by
  obtain ⟨j, rfl⟩ : ∃ j, k = j + 1 := ⟨k - 1, by omega⟩
  simp only [Nat.add_sub_cancel, Nat.pow_succ]
  have hx : 1 ≤ (B + 1) ^ j := Nat.pow_pos (by omega)
  have : (B + 1) ^ j * (B + 1) = B * (B + 1) ^ j + (B + 1) ^ j := by rw [Nat.mul_add, Nat.mul_one, Nat.mul_comm]
  omega

/-- the potential of a stack -/
def potential (m : List α → Nat) (B : Nat) (stack : List (E α S)) : Nat := sumBy (fun e : E α S => (B + 1) ^ m e.prod) stack

/-- **with more fuel than the potential of the stack, the loop does not run out of fuel**: an error that ends it is the error of
    the expansion of a reachable production -/
theorem run_err_enough (c : Cfg α S) (init : List (E α S)) (m : List α → Nat) (B : Nat)
    (hstep : ∀ rules p t succs, ReachE c init p t rules → c.expand rules p t = .ok succs →
      succs.length ≤ B ∧ ∀ s ∈ succs, m s.1 < m p) :
    ∀ (f : Nat) (budget : Option Nat) (stack : List (E α S)) (seen : List (List α × S)) (em : List (α × S)) (e : PyErr),
    (∀ x ∈ stack, ReachE c init x.prod x.trace x.rules) → potential m B stack < f →
    (run c f budget stack seen em).2 = some e → ∃ rules p t, ReachE c init p t rules ∧ c.expand rules p t = .error e := by
  intro f
  induction f with
  | zero => intro _ stack _ _ e _ hpot _; omega
  | succ f ih =>
    intro budget stack seen em e hinv hpot h
    simp only [run] at h
    cases hs : stack.reverse with
    | nil => simp [hs] at h
    | cons s restRev =>
      simp only [hs] at h
      have hsmem : s ∈ stack := by
        have : s ∈ stack.reverse := by rw [hs]; simp
        exact List.mem_reverse.mp this
      have hrest : ∀ x ∈ restRev.reverse, x ∈ stack := by
        intro x hx
        have : x ∈ stack.reverse := by rw [hs]; exact List.mem_cons_of_mem _ (List.mem_reverse.mp hx)
        exact List.mem_reverse.mp this
      -- the potential splits into the popped element and the rest
      have hsplit : potential m B stack = (B + 1) ^ m s.prod + potential m B restRev.reverse := by
        unfold potential
        rw [← sumBy_reverse _ stack, hs, sumBy_reverse]
        rfl
      have hpos : 1 ≤ (B + 1) ^ m s.prod := Nat.pow_pos (by omega)
      split at h
      · simp at h
      · cases he : c.expand s.rules s.prod s.trace with
        | error e' =>
          simp only [he] at h
          simp at h; subst h
          exact ⟨_, _, _, hinv s hsmem, he⟩
        | ok succs =>
          simp only [he] at h
          have hs_reach := hinv s hsmem
          obtain ⟨hB, hlt⟩ := hstep _ _ _ _ hs_reach he
          split at h
          · exact ih _ _ _ _ e (fun x hx => hinv x (hrest x hx)) (by omega) h
          · rename_i hne
            apply ih _ _ _ _ e _ _ h
            · intro x hx
              have h1 := mem_sortE c.lt _ x (mem_trunc c.depth _ x hx)
              rcases List.mem_append.mp h1 with h2 | h2
              · exact hinv x (hrest x h2)
              · obtain ⟨hr, n, hm⟩ := mem_pushNew c s.rules succs seen x h2
                rw [hr]
                exact ReachE.step hs_reach he hm
            · -- the successors are worth less than the popped element
              have h1 : potential m B (trunc c.depth (sortE c.lt (restRev.reverse ++ (pushNew c s.rules succs seen).1)))
                  ≤ potential m B restRev.reverse + potential m B (pushNew c s.rules succs seen).1 := by
                unfold potential
                exact Nat.le_trans (sumBy_trunc_le _ _ _) (by rw [sumBy_sortE, sumBy_append]; exact Nat.le_refl _)
              have h2 : potential m B (pushNew c s.rules succs seen).1 ≤ sumBy (fun x : List α × List String × Nat => (B + 1) ^ m x.1) succs :=
                sumBy_pushNew c s.rules (fun p => (B + 1) ^ m p) succs seen
              have hnonempty : succs ≠ [] := by
                intro hnil; subst hnil; apply hne; simp [pushNew]
              have hk : 1 ≤ m s.prod := by
                cases succs with
                | nil => exact absurd rfl hnonempty
                | cons x xs => have := hlt x List.mem_cons_self; omega
              have h3 : sumBy (fun x : List α × List String × Nat => (B + 1) ^ m x.1) succs ≤ succs.length * (B + 1) ^ (m s.prod - 1) :=
                sumBy_le_of_forall _ _ _ (fun x hx => Nat.pow_le_pow_right (by omega) (by have := hlt x hx; omega))
              have h4 : succs.length * (B + 1) ^ (m s.prod - 1) ≤ B * (B + 1) ^ (m s.prod - 1) := Nat.mul_le_mul_right _ hB
              have h5 := pow_step B (m s.prod) hk
              omega

end QuickAdd
