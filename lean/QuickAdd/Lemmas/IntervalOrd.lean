import QuickAdd.Lemmas.RulesWF
import QuickAdd.Lemmas.IvOrdDef
import QuickAdd.Lemmas.Cal
/-!
# A dated interval never starts after it ends (C02, the remaining clause)

`startMin t` / `endMin t`: minutes since ordinal 0 of `t.start.dt` / `t.end.dt` when these exist (full, existing date).
`IvOrd f t`: if both are defined, start ≤ end.  The interval-building productions establish it, the others hand intervals on.
-/
namespace QuickAdd
open Gen

/-- the date of a value, when it is a full existing date -/
def dateOf (t : Time) : Option Date :=
  match t.year, t.month, t.day with
  | some y, some m, some d => if (⟨y, m, d⟩ : Date).valid && (⟨y, m, d⟩ : Date).inRange then some ⟨y, m, d⟩ else none
  | _, _, _ => none

/-- clock of `start`: the hour (or the part of day's first hour, or 0) and the minute (or 0) -/
def startClock (t : Time) : Option (Int × Int) :=
  let mi := match t.minute with | some m => m | none => 0
  if t.hour.isNone && t.hasPOD then
    match t.pod with
    | some p => (match podLookup p with | some (a, _) => some (a, mi) | none => none)
    | none => none
  else some (t.hour.getD 0, mi)

/-- clock of `end`: the hour (or the part of day's last hour, or 23) and the minute (or 59) -/
def endClock (t : Time) : Option (Int × Int) :=
  let mi := match t.minute with | some m => m | none => 59
  if t.hour.isNone && t.hasPOD then
    match t.pod with
    | some p => (match podLookup p with | some (_, b) => some (b, mi) | none => none)
    | none => none
  else some ((match t.hour with | some h => h | none => 23), mi)

theorem start_eq (t s : Time) (h : t.start = .ok s) : ∃ hh mi, startClock t = some (hh, mi) ∧
    s = { year := t.year, month := t.month, day := t.day, hour := some hh, minute := some mi } := by
  unfold Time.start at h
  unfold startClock
  by_cases hc : (t.hour.isNone && t.hasPOD) = true
  · simp only [hc, if_true] at h ⊢
    cases hp : t.pod with
    | none => simp [hp, bind, Except.bind, throw, throwThe, MonadExceptOf.throw] at h
    | some p =>
      cases hl : podLookup p with
      | none => simp [hp, hl, bind, Except.bind, throw, throwThe, MonadExceptOf.throw] at h
      | some ab =>
        obtain ⟨a, b⟩ := ab
        simp [hp, hl, bind, Except.bind, pure, Except.pure] at h
        exact ⟨a, _, by simp [hl]; cases t.minute <;> rfl, h.symm⟩
  · simp only [hc, Bool.false_eq_true, if_false] at h ⊢
    simp [bind, Except.bind, pure, Except.pure] at h
    exact ⟨_, _, rfl, h.symm⟩

theorem end_eq (t s : Time) (h : t.end_ = .ok s) : ∃ hh mi, endClock t = some (hh, mi) ∧
    s = { year := t.year, month := t.month, day := t.day, hour := some hh, minute := some mi } := by
  unfold Time.end_ at h
  unfold endClock
  by_cases hc : (t.hour.isNone && t.hasPOD) = true
  · simp only [hc, if_true] at h ⊢
    cases hp : t.pod with
    | none => simp [hp, bind, Except.bind, throw, throwThe, MonadExceptOf.throw] at h
    | some p =>
      cases hl : podLookup p with
      | none => simp [hp, hl, bind, Except.bind, throw, throwThe, MonadExceptOf.throw] at h
      | some ab =>
        obtain ⟨a, b⟩ := ab
        simp [hp, hl, bind, Except.bind, pure, Except.pure] at h
        exact ⟨b, _, by simp [hl]; cases t.minute <;> rfl, h.symm⟩
  · simp only [hc, Bool.false_eq_true, if_false] at h ⊢
    simp [bind, Except.bind, pure, Except.pure] at h
    exact ⟨_, _, rfl, h.symm⟩

/-- `dt` of a time whose hour and minute are set: its date must be a real one, its clock in range -/
theorem dt_of_clocked (y m d : Option Int) (hh mi : Int) (x : Ts)
    (h : Time.dt { year := y, month := m, day := d, hour := some hh, minute := some mi } = .ok x) :
    ∃ D, dateOf { year := y, month := m, day := d } = some D ∧ x = ⟨D, hh, mi⟩ ∧ 0 ≤ hh ∧ hh ≤ 23 ∧ 0 ≤ mi ∧ mi ≤ 59 := by
  unfold Time.dt at h
  have hs : Time.start { year := y, month := m, day := d, hour := some hh, minute := some mi } =
      .ok { year := y, month := m, day := d, hour := some hh, minute := some mi } := by
    simp [Time.start, bind, Except.bind, pure, Except.pure]
  simp only [hs, bind, Except.bind] at h
  unfold dateOf
  cases y with
  | none => simp [throw, throwThe, MonadExceptOf.throw] at h
  | some yy =>
    cases m with
    | none => simp [throw, throwThe, MonadExceptOf.throw] at h
    | some mm =>
      cases d with
      | none => simp [throw, throwThe, MonadExceptOf.throw] at h
      | some dd =>
        simp only [Option.getD_some] at h ⊢
        split at h
        · rename_i hc
          simp [pure, Except.pure] at h
          simp only [Bool.and_eq_true, decide_eq_true_eq] at hc
          obtain ⟨⟨⟨⟨⟨c1, c2⟩, c3⟩, c4⟩, c5⟩, c6⟩ := hc
          exact ⟨⟨yy, mm, dd⟩, by simp [c1, c2], h.symm, c3, c4, c5, c6⟩
        · simp [throw, throwThe, MonadExceptOf.throw] at h

theorem dateOf_fields (t : Time) : dateOf t = dateOf { year := t.year, month := t.month, day := t.day } := rfl

theorem startMin_spec (t : Time) (x : Int) (h : startMin t = some x) :
    ∃ D hh mi, dateOf t = some D ∧ startClock t = some (hh, mi) ∧ 0 ≤ hh ∧ hh ≤ 23 ∧ 0 ≤ mi ∧ mi ≤ 59 ∧ x = (D.ord * 24 + hh) * 60 + mi := by
  unfold startMin at h
  cases hs : t.start with
  | error e => simp [hs] at h
  | ok s =>
    simp only [hs] at h
    obtain ⟨hh, mi, hc, rfl⟩ := start_eq t s hs
    cases hd : Time.dt { year := t.year, month := t.month, day := t.day, hour := some hh, minute := some mi } with
    | error e => simp [hd] at h
    | ok d =>
      simp [hd] at h
      obtain ⟨D, hD, rfl, b1, b2, b3, b4⟩ := dt_of_clocked _ _ _ _ _ d hd
      exact ⟨D, hh, mi, by rw [dateOf_fields]; exact hD, hc, b1, b2, b3, b4, by rw [← h]; rfl⟩

theorem endMin_spec (t : Time) (x : Int) (h : endMin t = some x) :
    ∃ D hh mi, dateOf t = some D ∧ endClock t = some (hh, mi) ∧ 0 ≤ hh ∧ hh ≤ 23 ∧ 0 ≤ mi ∧ mi ≤ 59 ∧ x = (D.ord * 24 + hh) * 60 + mi := by
  unfold endMin at h
  cases hs : t.end_ with
  | error e => simp [hs] at h
  | ok s =>
    simp only [hs] at h
    obtain ⟨hh, mi, hc, rfl⟩ := end_eq t s hs
    cases hd : Time.dt { year := t.year, month := t.month, day := t.day, hour := some hh, minute := some mi } with
    | error e => simp [hd] at h
    | ok d =>
      simp [hd] at h
      obtain ⟨D, hD, rfl, b1, b2, b3, b4⟩ := dt_of_clocked _ _ _ _ _ d hd
      exact ⟨D, hh, mi, by rw [dateOf_fields]; exact hD, hc, b1, b2, b3, b4, by rw [← h]; rfl⟩

theorem dateOf_valid (t : Time) (D : Date) (h : dateOf t = some D) : D.Valid ∧ t.year = some D.y ∧ t.month = some D.m ∧ t.day = some D.d := by
  unfold dateOf at h
  cases hy : t.year with
  | none => simp [hy] at h
  | some y =>
    cases hm : t.month with
    | none => simp [hy, hm] at h
    | some m =>
      cases hd : t.day with
      | none => simp [hy, hm, hd] at h
      | some d =>
        simp only [hy, hm, hd] at h
        split at h
        · rename_i hc
          simp at h; subst h
          simp only [Bool.and_eq_true] at hc
          exact ⟨(Date.valid_iff _).mp hc.1, rfl, rfl, rfl⟩
        · simp at h

/-- an earlier date starts (and ends) before a later date ends, whatever the clocks -/
theorem ord_lt_minutes (D1 D2 : Date) (h1 m1 h2 m2 : Int) (hlt : D1.ord < D2.ord) (a1 : 0 ≤ h1 ∧ h1 ≤ 23) (a2 : 0 ≤ m1 ∧ m1 ≤ 59) (b1 : 0 ≤ h2 ∧ h2 ≤ 23) (b2 : 0 ≤ m2 ∧ m2 ≤ 59) :
    (D1.ord * 24 + h1) * 60 + m1 ≤ (D2.ord * 24 + h2) * 60 + m2 := by omega

/-- lexicographic order of (year, month, day) is the order of ordinals, on real dates -/
theorem ord_lt_of_lex (x z : Date) (hx : x.Valid) (hz : z.Valid) (h : x.y < z.y ∨ (x.y = z.y ∧ (x.m < z.m ∨ (x.m = z.m ∧ x.d < z.d)))) : x.ord < z.ord := by
  obtain ⟨x1, x2, x3, x4⟩ := hx
  obtain ⟨z1, z2, z3, z4⟩ := hz
  rcases h with h | ⟨hy, h | ⟨hm, hd⟩⟩
  · exact ord_strict_year x z ⟨x1, x2, x3, x4⟩ ⟨z1, z2, z3, z4⟩ h
  · have := dbm_mono x.y x.m z.m x1 h z2
    unfold Date.ord; rw [← hy]; omega
  · unfold Date.ord; rw [← hy, ← hm]; omega

theorem podHours_le : (Gen.podHours.all fun e => decide (e.2.1 ≤ e.2.2)) = true := by decide +kernel

theorem podLookup_le (p : String) (a b : Int) (h : podLookup p = some (a, b)) : a ≤ b := by
  unfold podLookup at h
  cases hf : Gen.podHours.find? (·.1 == p) with
  | none => simp [hf] at h
  | some e =>
    obtain ⟨q, x, y⟩ := e
    simp [hf] at h
    obtain ⟨rfl, rfl⟩ := h
    have := List.all_eq_true.mp podHours_le _ (List.mem_of_find?_eq_some hf)
    simpa using this

/-- the start clock of a value is not after its end clock -/
theorem clock_le (t : Time) (h1 m1 h2 m2 : Int) (hs : startClock t = some (h1, m1)) (he : endClock t = some (h2, m2))
    (b2 : h2 ≤ 23) (c2 : m2 ≤ 59) (b1 : 0 ≤ h1) (c1 : 0 ≤ m1) : h1 * 60 + m1 ≤ h2 * 60 + m2 := by
  unfold startClock at hs
  unfold endClock at he
  by_cases hc : (t.hour.isNone && t.hasPOD) = true
  · simp only [hc, if_true] at hs he
    cases hp : t.pod with
    | none => simp [hp] at hs
    | some p =>
      cases hl : podLookup p with
      | none => simp [hp, hl] at hs
      | some ab =>
        obtain ⟨a, b⟩ := ab
        simp [hp, hl] at hs he
        have := podLookup_le p a b hl
        obtain ⟨rfl, rfl⟩ := hs
        obtain ⟨rfl, rfl⟩ := he
        cases t.minute <;> simp <;> omega
  · simp only [hc, Bool.false_eq_true, if_false] at hs he
    simp at hs he
    obtain ⟨rfl, rfl⟩ := hs
    obtain ⟨rfl, rfl⟩ := he
    cases t.hour <;> cases t.minute <;> simp at * <;> omega

/-- a value never starts after it ends -/
theorem start_le_end (t : Time) (x y : Int) (hx : startMin t = some x) (hy : endMin t = some y) : x ≤ y := by
  obtain ⟨D1, h1, m1, d1, c1, a1, a2, a3, a4, rfl⟩ := startMin_spec t x hx
  obtain ⟨D2, h2, m2, d2, c2, b1, b2, b3, b4, rfl⟩ := endMin_spec t y hy
  rw [d1] at d2; cases d2
  have := clock_le t h1 m1 h2 m2 c1 c2 b2 b4 a1 a3
  omega

def Val.Ord : Val → Prop
  | .interval f t => IvOrd f t
  | .duration n _ => 0 ≤ n
  | _ => True

theorem ivOrd_none_left (t : Option Time) : IvOrd none t := by intro a b ha; cases ha
theorem ivOrd_none_right (f : Option Time) : IvOrd f none := by intro a b _ hb; cases hb

/-- two ends on dates in strict lexicographic order -/
theorem ivOrd_of_lex (a b : Time)
    (hlex : ∀ D1 D2, dateOf a = some D1 → dateOf b = some D2 → (D1.y < D2.y ∨ (D1.y = D2.y ∧ (D1.m < D2.m ∨ (D1.m = D2.m ∧ D1.d < D2.d))))) :
    IvOrd (some a) (some b) := by
  intro a' b' ha hb x y hx hy
  cases ha; cases hb
  obtain ⟨D1, h1, m1, d1, _, a1, a2, a3, a4, rfl⟩ := startMin_spec a x hx
  obtain ⟨D2, h2, m2, d2, _, b1, b2, b3, b4, rfl⟩ := endMin_spec b y hy
  have v1 := (dateOf_valid a D1 d1).1
  have v2 := (dateOf_valid b D2 d2).1
  exact ord_lt_minutes D1 D2 h1 m1 h2 m2 (ord_lt_of_lex D1 D2 v1 v2 (hlex D1 D2 d1 d2)) ⟨a1, a2⟩ ⟨a3, a4⟩ ⟨b1, b2⟩ ⟨b3, b4⟩

/-- general comparison: strictly earlier date, or the same date and a clock that is not later -/
theorem ivOrd_of_cmp (a b : Time)
    (hcmp : ∀ D1 D2 h1 m1 h2 m2, dateOf a = some D1 → dateOf b = some D2 → startClock a = some (h1, m1) → endClock b = some (h2, m2) →
      0 ≤ h1 → h1 ≤ 23 → 0 ≤ m1 → m1 ≤ 59 → 0 ≤ h2 → h2 ≤ 23 → 0 ≤ m2 → m2 ≤ 59 →
      (D1.ord < D2.ord ∨ (D1.ord = D2.ord ∧ h1 * 60 + m1 ≤ h2 * 60 + m2))) :
    IvOrd (some a) (some b) := by
  intro a' b' ha hb x y hx hy
  cases ha; cases hb
  obtain ⟨D1, h1, m1, d1, c1, a1, a2, a3, a4, rfl⟩ := startMin_spec a x hx
  obtain ⟨D2, h2, m2, d2, c2, b1, b2, b3, b4, rfl⟩ := endMin_spec b y hy
  rcases hcmp D1 D2 h1 m1 h2 m2 d1 d2 c1 c2 a1 a2 a3 a4 b1 b2 b3 b4 with h | ⟨h, h'⟩
  · omega
  · omega

theorem startClock_of_hour (t : Time) (h : Int) (hh : t.hour = some h) : startClock t = some (h, t.minute.getD 0) := by
  unfold startClock
  simp [hh]
  cases t.minute <;> rfl

theorem endClock_of_hour (t : Time) (h : Int) (hh : t.hour = some h) : endClock t = some (h, match t.minute with | some m => m | none => 59) := by
  unfold endClock
  simp [hh]

/-- `t.dt` is the datetime of `t.start` -/
theorem dt_startMin (t : Time) (x : Ts) (h : t.dt = .ok x) : startMin t = some x.minutes := by
  unfold startMin
  cases hs : t.start with
  | error e => unfold Time.dt at h; simp [hs, bind, Except.bind] at h
  | ok s =>
    obtain ⟨hh, mi, _, rfl⟩ := start_eq t s hs
    have e : Time.dt { year := t.year, month := t.month, day := t.day, hour := some hh, minute := some mi } = t.dt := by
      have hs' : Time.start { year := t.year, month := t.month, day := t.day, hour := some hh, minute := some mi } =
          .ok { year := t.year, month := t.month, day := t.day, hour := some hh, minute := some mi } := by
        simp [Time.start, bind, Except.bind, pure, Except.pure]
      conv => lhs; unfold Time.dt
      conv => rhs; unfold Time.dt
      simp only [hs, hs', bind, Except.bind]
    simp only [e, h]

theorem dt_spec (t : Time) (x : Ts) (h : t.dt = .ok x) :
    ∃ D hh mi, dateOf t = some D ∧ startClock t = some (hh, mi) ∧ 0 ≤ hh ∧ hh ≤ 23 ∧ 0 ≤ mi ∧ mi ≤ 59 ∧ x.minutes = (D.ord * 24 + hh) * 60 + mi :=
  startMin_spec t x.minutes (dt_startMin t x h)

theorem dt_le_endMin (t : Time) (x : Ts) (y : Int) (h : t.dt = .ok x) (hy : endMin t = some y) : x.minutes ≤ y :=
  start_le_end t x.minutes y (dt_startMin t x h) hy

theorem ofOrd_inRange_ord (n : Int) (h : (Date.ofOrd n).inRange = true) : (Date.ofOrd n).Valid ∧ (Date.ofOrd n).ord = n := by
  by_cases h1 : n < 1
  · simp [Date.ofOrd, h1, Date.inRange] at h
  · by_cases h2 : n > maxOrd
    · simp [Date.ofOrd, h1, h2, Date.inRange] at h
    · exact ofOrd_spec n (by omega) (by omega)

theorem ofMinutes_inRange (n : Int) (h : (Ts.ofMinutes n).date.inRange = true) :
    (Ts.ofMinutes n).minutes = n ∧ (Ts.ofMinutes n).date.Valid ∧ 0 ≤ (Ts.ofMinutes n).h ∧ (Ts.ofMinutes n).h ≤ 23 ∧ 0 ≤ (Ts.ofMinutes n).mi ∧ (Ts.ofMinutes n).mi ≤ 59 := by
  have hr : (Date.ofOrd (n / 1440)).inRange = true := h
  obtain ⟨hv, ho⟩ := ofOrd_inRange_ord _ hr
  simp only [Ts.ofMinutes, Ts.minutes]
  refine ⟨?_, hv, by omega, by omega, by omega, by omega⟩
  rw [ho]; omega

/-- the end of a value built from a datetime is that datetime -/
theorem endMin_tsToTime (e : Ts) (p : Option String) (y : Int) (h : endMin (tsToTime e p) = some y) : y = e.minutes := by
  obtain ⟨D, hh, mi, d, c, _, _, _, _, rfl⟩ := endMin_spec _ y h
  rw [endClock_of_hour (tsToTime e p) e.h rfl] at c
  simp [tsToTime] at c
  obtain ⟨rfl, rfl⟩ := c
  unfold dateOf at d
  simp only [tsToTime] at d
  split at d
  · cases d; rfl
  · cases d

theorem dt_bounds (t : Time) (x : Ts) (h : t.dt = .ok x) : x.date.Valid ∧ 0 ≤ x.h ∧ x.h ≤ 23 ∧ 0 ≤ x.mi ∧ x.mi ≤ 59 := by
  unfold Time.dt at h
  cases hs : t.start with
  | error e => simp [hs, bind, Except.bind] at h
  | ok s =>
    simp only [hs, bind, Except.bind] at h
    split at h
    · split at h
      · rename_i hc
        simp [pure, Except.pure] at h
        simp only [Bool.and_eq_true, decide_eq_true_eq] at hc
        obtain ⟨⟨⟨⟨⟨c1, c2⟩, c3⟩, c4⟩, c5⟩, c6⟩ := hc
        subst h
        exact ⟨(Date.valid_iff _).1 c1, c3, c4, c5, c6⟩
      · simp [throw, throwThe, MonadExceptOf.throw] at h
    · simp [throw, throwThe, MonadExceptOf.throw] at h

/-- an end that is a whole day on or after the start's day -/
theorem ivOrd_dateEnd (t : Time) (x : Ts) (d : Date) (h : t.dt = .ok x) (hle : x.date.ord ≤ d.ord) : IvOrd (some t) (some (tsTime d)) := by
  intro a' b' e1 e2 p q hp hq
  cases e1; cases e2
  rw [dt_startMin t x h] at hp; cases hp
  obtain ⟨_, b1, b2, b3, b4⟩ := dt_bounds t x h
  obtain ⟨D, hh, mi, dd, c, _, _, _, _, rfl⟩ := endMin_spec _ q hq
  have hD : D = d := by
    unfold dateOf at dd
    simp only [tsTime] at dd
    split at dd
    · cases dd; rfl
    · cases dd
  subst hD
  unfold endClock at c
  simp [tsTime, Time.hasPOD, Time.hasAtLeast, Time.isSet] at c
  obtain ⟨rfl, rfl⟩ := c
  unfold Ts.minutes
  omega

theorem addMonthsClip_ord (x : Date) (hv : x.Valid) (n : Int) (hn : 0 ≤ n) : x.ord ≤ (x.addMonthsClip n).ord := by
  have hv' := hv
  unfold Date.Valid at hv'
  generalize hr : x.addMonthsClip n = r
  have hy : r.y = (12 * x.y + (x.m - 1) + n) / 12 := by subst hr; rfl
  have hm : r.m = (12 * x.y + (x.m - 1) + n) % 12 + 1 := by subst hr; rfl
  have hd : r.d = min x.d (dim r.y r.m) := by subst hr; rfl
  have db := dim_bounds r.y r.m
  have rv : r.Valid := by unfold Date.Valid; omega
  by_cases hlt : x.y < r.y ∨ (x.y = r.y ∧ x.m < r.m)
  · exact Int.le_of_lt (ord_lt_of_lex x r hv rv (by omega))
  · have e1 : r.y = x.y := by omega
    have e2 : r.m = x.m := by omega
    have e3 : r.d = x.d := by rw [hd, e1, e2]; omega
    unfold Date.ord; rw [e1, e2, e3]; exact Int.le_refl _

theorem digitVal_nonneg (c : Nat) (v : Nat) (_ : digitVal c = some v) : (0 : Int) ≤ v := Int.natCast_nonneg v

theorem pyInt_nonneg (s : List Nat) (n : Int) (h : pyInt s = .ok n) : 0 ≤ n := by
  unfold pyInt at h
  split at h
  · simp [throw, throwThe, MonadExceptOf.throw] at h
  · have : ∀ (l : List Nat) (acc r : Int), 0 ≤ acc →
        l.foldlM (fun (acc : Int) c => match digitVal c with
          | some v => (pure (acc * 10 + v) : Except PyErr Int) | none => throw PyErr.valueError) acc = .ok r → 0 ≤ r := by
      intro l
      induction l with
      | nil => intro acc r h0 hr; simp [pure, Except.pure] at hr; omega
      | cons c l ih =>
        intro acc r h0 hr
        simp only [List.foldlM_cons, bind, Except.bind] at hr
        cases hd : digitVal c with
        | none => simp [hd, throw, throwThe, MonadExceptOf.throw] at hr
        | some v =>
          simp only [hd, pure, Except.pure] at hr
          exact ih (acc * 10 + v) r (by have := Int.natCast_nonneg v; omega) hr
    exact this s 0 n (Int.le_refl 0) h

end QuickAdd
