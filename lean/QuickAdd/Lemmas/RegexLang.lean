import QuickAdd.Model.Regex
/-!
# Language soundness of the matcher, with captures

`Matches T r s`: the code-point list `s` is in the language of `r` (look-arounds and `\b` consume nothing; their side
conditions are ignored — an over-approximation, which is what soundness needs).
`mtc_sound`: whenever the matcher succeeds, the continuation was entered after consuming a segment of the text that is in
the language of the pattern, and every capture `(i, s, e)` recorded on the way delimits a segment of the **text** that is
in the language of the body of a group numbered `i` occurring in the pattern.
-/
namespace QuickAdd

inductive Matches (T : Tabs) : Rx → List Nat → Prop
  | eps : Matches T .eps []
  | lit {alts : List Nat} {x : Nat} : alts.contains x = true → Matches T (.lit alts) [x]
  | cls {neg : Bool} {items : List CI} {x : Nat} : clsMatch T neg items x = true → Matches T (.cls neg items) [x]
  | seq {a b : Rx} {s t : List Nat} : Matches T a s → Matches T b t → Matches T (.seq a b) (s ++ t)
  | altL {a b : Rx} {s : List Nat} : Matches T a s → Matches T (.alt a b) s
  | altR {a b : Rx} {s : List Nat} : Matches T b s → Matches T (.alt a b) s
  | optNone {a : Rx} : Matches T (.opt a) []
  | optSome {a : Rx} {s : List Nat} : Matches T a s → Matches T (.opt a) s
  | starNil {a : Rx} : Matches T (.star a) []
  | starCons {a : Rx} {s t : List Nat} : Matches T a s → Matches T (.star a) t → Matches T (.star a) (s ++ t)
  | plus {a : Rx} {s t : List Nat} : Matches T a s → Matches T (.star a) t → Matches T (.plus a) (s ++ t)
  | grp {i : Nat} {a : Rx} {s : List Nat} : Matches T a s → Matches T (.grp i a) s
  | nla {a : Rx} : Matches T (.nla a) []
  | nlb {a : Rx} : Matches T (.nlb a) []
  | wordb : Matches T .wordb []

/-- `grp i a` occurs in `r` (only positions the matcher can capture at: not inside look-arounds) -/
inductive GrpIn (i : Nat) (a : Rx) : Rx → Prop
  | here : GrpIn i a (.grp i a)
  | seqL {x y} : GrpIn i a x → GrpIn i a (.seq x y)
  | seqR {x y} : GrpIn i a y → GrpIn i a (.seq x y)
  | altL {x y} : GrpIn i a x → GrpIn i a (.alt x y)
  | altR {x y} : GrpIn i a y → GrpIn i a (.alt x y)
  | opt {x} : GrpIn i a x → GrpIn i a (.opt x)
  | star {x} : GrpIn i a x → GrpIn i a (.star x)
  | plus {x} : GrpIn i a x → GrpIn i a (.plus x)
  | grp {j x} : GrpIn i a x → GrpIn i a (.grp j x)

/-- the matcher state is a position in the text `txt` -/
def AtPos (txt : List Nat) (st : St) : Prop := st.rest = txt.drop st.pos ∧ st.pos ≤ txt.length

/-- every recorded capture delimits a text segment in the language of a group body of `r0` with that number -/
def CapsOK (T : Tabs) (txt : List Nat) (r0 : Rx) (cs : Caps) : Prop :=
  ∀ c ∈ cs, ∃ a, GrpIn c.1 a r0 ∧ c.2.1 ≤ c.2.2 ∧ Matches T a ((txt.drop c.2.1).take (c.2.2 - c.2.1))

theorem step_atPos {txt : List Nat} {st st' : St} {x : Nat} (h : AtPos txt st) (hs : step st = some (x, st')) :
    AtPos txt st' ∧ st.rest = x :: st'.rest ∧ st'.pos = st.pos + 1 := by
  unfold step at hs
  cases hr : st.rest with
  | nil => simp [hr] at hs
  | cons y ys =>
    simp [hr] at hs
    obtain ⟨rfl, rfl⟩ := hs
    refine ⟨⟨?_, ?_⟩, rfl, rfl⟩
    · simp only
      have h1 := h.1
      rw [hr] at h1
      have : txt.drop (st.pos + 1) = (txt.drop st.pos).drop 1 := by rw [List.drop_drop]
      rw [this, ← h1]; rfl
    · simp only
      have h1 := h.1
      rw [hr] at h1
      have hl : (txt.drop st.pos).length = txt.length - st.pos := List.length_drop
      rw [← h1] at hl
      simp at hl; omega

/-- segment of the text between two matcher positions -/
theorem seg_eq {txt : List Nat} {st st' : St} {s : List Nat} (h : AtPos txt st) (hr : st.rest = s ++ st'.rest) (hp : st'.pos = st.pos + s.length) :
    (txt.drop st.pos).take (st'.pos - st.pos) = s := by
  rw [← h.1, hr, hp]
  simp

/-- subpattern relation used to transport `GrpIn` facts to the whole pattern -/
def Lift (r r0 : Rx) : Prop := ∀ i a, GrpIn i a r → GrpIn i a r0

theorem mtc_sound (T : Tabs) (txt : List Nat) (r0 : Rx) : ∀ (f : Nat) (r : Rx) (st : St) (cs : Caps) (k : K) (res : Nat × Caps),
    Lift r r0 → AtPos txt st → CapsOK T txt r0 cs → mtc T f r st cs k = some res →
    ∃ st' cs' s, Matches T r s ∧ st.rest = s ++ st'.rest ∧ st'.pos = st.pos + s.length ∧ AtPos txt st' ∧ CapsOK T txt r0 cs' ∧ k st' cs' = some res := by
  intro f
  induction f with
  | zero => intro r st cs k res _ _ _ h; simp [mtc] at h
  | succ f ih =>
    intro r st cs k res hl hp hc h
    cases r with
    | eps => exact ⟨st, cs, [], .eps, by simp, by simp, hp, hc, by simpa [mtc] using h⟩
    | lit alts =>
      simp only [mtc] at h
      split at h
      · rename_i x st' hs
        split at h
        · rename_i hx
          obtain ⟨hp', hr, hpos⟩ := step_atPos hp hs
          exact ⟨st', cs, [x], .lit hx, by simpa using hr, by simpa using hpos, hp', hc, h⟩
        · simp at h
      · simp at h
    | cls neg items =>
      simp only [mtc] at h
      split at h
      · rename_i x st' hs
        split at h
        · rename_i hx
          obtain ⟨hp', hr, hpos⟩ := step_atPos hp hs
          exact ⟨st', cs, [x], .cls hx, by simpa using hr, by simpa using hpos, hp', hc, h⟩
        · simp at h
      · simp at h
    | seq a b =>
      simp only [mtc] at h
      obtain ⟨st1, cs1, s1, m1, r1, p1, a1, c1, k1⟩ := ih a st cs _ res (fun i x g => hl i x (.seqL g)) hp hc h
      obtain ⟨st2, cs2, s2, m2, r2, p2, a2, c2, k2⟩ := ih b st1 cs1 k res (fun i x g => hl i x (.seqR g)) a1 c1 k1
      exact ⟨st2, cs2, s1 ++ s2, .seq m1 m2, by rw [r1, r2, List.append_assoc], by rw [p2, p1, List.length_append]; omega, a2, c2, k2⟩
    | alt a b =>
      simp only [mtc] at h
      split at h
      · rename_i e he
        obtain ⟨st1, cs1, s1, m1, r1, p1, a1, c1, k1⟩ := ih a st cs k e (fun i x g => hl i x (.altL g)) hp hc he
        exact ⟨st1, cs1, s1, .altL m1, r1, p1, a1, c1, by simpa using h ▸ k1⟩
      · obtain ⟨st1, cs1, s1, m1, r1, p1, a1, c1, k1⟩ := ih b st cs k res (fun i x g => hl i x (.altR g)) hp hc h
        exact ⟨st1, cs1, s1, .altR m1, r1, p1, a1, c1, k1⟩
    | opt a =>
      simp only [mtc] at h
      split at h
      · rename_i e he
        obtain ⟨st1, cs1, s1, m1, r1, p1, a1, c1, k1⟩ := ih a st cs k e (fun i x g => hl i x (.opt g)) hp hc he
        exact ⟨st1, cs1, s1, .optSome m1, r1, p1, a1, c1, by simpa using h ▸ k1⟩
      · exact ⟨st, cs, [], .optNone, by simp, by simp, hp, hc, h⟩
    | star a =>
      simp only [mtc] at h
      split at h
      · rename_i e he
        obtain ⟨st1, cs1, s1, m1, r1, p1, a1, c1, k1⟩ := ih a st cs _ e (fun i x g => hl i x (.star g)) hp hc he
        split at k1
        · simp at k1
        · obtain ⟨st2, cs2, s2, m2, r2, p2, a2, c2, k2⟩ := ih (.star a) st1 cs1 k e hl a1 c1 k1
          exact ⟨st2, cs2, s1 ++ s2, .starCons m1 m2, by rw [r1, r2, List.append_assoc], by rw [p2, p1, List.length_append]; omega, a2, c2, by simpa using h ▸ k2⟩
      · exact ⟨st, cs, [], .starNil, by simp, by simp, hp, hc, h⟩
    | plus a =>
      simp only [mtc] at h
      obtain ⟨st1, cs1, s1, m1, r1, p1, a1, c1, k1⟩ := ih a st cs _ res (fun i x g => hl i x (.plus g)) hp hc h
      obtain ⟨st2, cs2, s2, m2, r2, p2, a2, c2, k2⟩ := ih (.star a) st1 cs1 k res
        (fun i x g => by cases g with | star g' => exact hl i x (.plus g')) a1 c1 k1
      exact ⟨st2, cs2, s1 ++ s2, .plus m1 m2, by rw [r1, r2, List.append_assoc], by rw [p2, p1, List.length_append]; omega, a2, c2, k2⟩
    | grp i a =>
      simp only [mtc] at h
      obtain ⟨st1, cs1, s1, m1, r1, p1, a1, c1, k1⟩ := ih a st cs _ res (fun j x g => hl j x (.grp g)) hp hc h
      refine ⟨st1, (i, st.pos, st1.pos) :: cs1, s1, .grp m1, r1, p1, a1, ?_, k1⟩
      intro c hcm
      rcases List.mem_cons.mp hcm with rfl | hcm
      · refine ⟨a, hl i a .here, by simp; omega, ?_⟩
        simp only
        rw [seg_eq hp r1 p1]; exact m1
      · exact c1 c hcm
    | nla a =>
      simp only [mtc] at h
      split at h
      · simp at h
      · exact ⟨st, cs, [], .nla, by simp, by simp, hp, hc, h⟩
    | nlb a =>
      simp only [mtc] at h
      split at h
      · exact ⟨st, cs, [], .nlb, by simp, by simp, hp, hc, h⟩
      · split at h
        · simp at h
        · exact ⟨st, cs, [], .nlb, by simp, by simp, hp, hc, h⟩
    | wordb =>
      simp only [mtc] at h
      refine ⟨st, cs, [], .wordb, by simp, by simp, hp, hc, ?_⟩
      simp at h
      exact h.2

/-- top level: every capture of a priority match delimits a text segment in the language of that group's body -/
theorem matchAt_caps (T : Tabs) (txt : List Nat) (r : Rx) (pos : Nat) (hpos : pos ≤ txt.length) (prev : Option Nat) (e : Nat) (cs : Caps)
    (h : matchAt T r { prev := prev, rest := txt.drop pos, pos := pos } = some (e, cs)) : CapsOK T txt r cs := by
  unfold matchAt at h
  obtain ⟨st', cs', s, _, _, _, _, c', k'⟩ := mtc_sound T txt r _ r _ [] _ (e, cs) (fun _ _ g => g) ⟨rfl, hpos⟩ (by intro c hc; simp at hc) h
  simp at k'
  rw [← k'.2]; exact c'

end QuickAdd
