import QuickAdd.Model.Search
import QuickAdd.Lemmas.SearchSound
/-!
# The rule pre-filter loses no applicable rule

`smSpec`: front-to-back reading of `_seq_match` (a pattern match predicate must find its token further right; every other
predicate consumes exactly one element).  `smSpec_seqMatchEx`: whenever it holds, the model of `_seq_match` (with its
trailing-predicate and length shortcuts) answers yes.  `Covers s p`: the production `p` descends from the initial sequence
`s` — every element of `p` is an element of `s` kept in place, or a value standing for a non-empty block of `s`.
`covers_window_smSpec`: if a rule pattern matches a window of a descendant, `smSpec` holds on the initial sequence — so
`filterRules` kept the rule.
-/
namespace QuickAdd
open Gen

def smSpec : List Art → List Pred → Bool
  | _, [] => true
  | seq, p :: ps =>
    if isRegexPred p then (List.range seq.length).any fun i => (match seq[i]? with | some s => predHolds p s | none => false) && smSpec (seq.drop (i + 1)) ps
    else !seq.isEmpty && smSpec (seq.drop 1) ps

theorem smSpec_cons_regex (seq : List Art) (p : Pred) (ps : List Pred) (hp : isRegexPred p = true) :
    smSpec seq (p :: ps) = true ↔ ∃ i a, seq[i]? = some a ∧ predHolds p a = true ∧ smSpec (seq.drop (i + 1)) ps = true := by
  simp only [smSpec, hp, if_true, List.any_eq_true, List.mem_range, Bool.and_eq_true]
  constructor
  · rintro ⟨i, hi, h1, h2⟩
    cases hs : seq[i]? with
    | none => simp [hs] at h1
    | some a => simp [hs] at h1; exact ⟨i, a, hs, h1, h2⟩
  · rintro ⟨i, a, hs, h1, h2⟩
    have hi : i < seq.length := by
      have := List.getElem?_eq_some_iff.mp hs; exact this.1
    exact ⟨i, hi, by simp [hs, h1], h2⟩

theorem smSpec_cons_other (seq : List Art) (p : Pred) (ps : List Pred) (hp : isRegexPred p = false) :
    smSpec seq (p :: ps) = true ↔ seq ≠ [] ∧ smSpec (seq.drop 1) ps = true := by
  simp [smSpec, hp]

/-- more elements in front never hurt -/
theorem smSpec_mono_cons : ∀ (pat : List Pred) (seq : List Art) (a : Art), smSpec seq pat = true → smSpec (a :: seq) pat = true := by
  intro pat
  induction pat with
  | nil => intro seq a _; rfl
  | cons p ps ih =>
    intro seq a h
    cases hp : isRegexPred p with
    | true =>
      obtain ⟨i, x, hs, h1, h2⟩ := (smSpec_cons_regex seq p ps hp).mp h
      exact (smSpec_cons_regex (a :: seq) p ps hp).mpr ⟨i + 1, x, by simpa using hs, h1, by simpa using h2⟩
    | false =>
      obtain ⟨hne, h2⟩ := (smSpec_cons_other seq p ps hp).mp h
      refine (smSpec_cons_other (a :: seq) p ps hp).mpr ⟨by simp, ?_⟩
      simp only [List.drop_succ_cons, List.drop_zero]
      cases seq with
      | nil => exact absurd rfl hne
      | cons b bs =>
        simp only [List.drop_succ_cons, List.drop_zero] at h2
        exact ih bs b h2

theorem smSpec_mono_append (pat : List Pred) (l seq : List Art) (h : smSpec seq pat = true) : smSpec (l ++ seq) pat = true := by
  induction l with
  | nil => exact h
  | cons a as ih => exact smSpec_mono_cons pat _ a ih

theorem smSpec_length : ∀ (pat : List Pred) (seq : List Art), smSpec seq pat = true → pat.length ≤ seq.length := by
  intro pat
  induction pat with
  | nil => intro seq _; simp
  | cons p ps ih =>
    intro seq h
    cases hp : isRegexPred p with
    | true =>
      obtain ⟨i, x, hs, _, h2⟩ := (smSpec_cons_regex seq p ps hp).mp h
      have := ih _ h2
      have hi := (List.getElem?_eq_some_iff.mp hs).1
      simp at this ⊢; omega
    | false =>
      obtain ⟨hne, h2⟩ := (smSpec_cons_other seq p ps hp).mp h
      have := ih _ h2
      cases seq with
      | nil => exact absurd rfl hne
      | cons b bs => simp at this ⊢; omega

/-- a trailing non-pattern predicate consumes the last element -/
theorem smSpec_dropLast : ∀ (ps : List Pred) (p : Pred) (seq : List Art), isRegexPred p = false → smSpec seq (ps ++ [p]) = true →
    seq ≠ [] ∧ smSpec seq.dropLast ps = true := by
  intro ps
  induction ps with
  | nil =>
    intro p seq hp h
    obtain ⟨hne, _⟩ := (smSpec_cons_other seq p [] hp).mp h
    exact ⟨hne, rfl⟩
  | cons q qs ih =>
    intro p seq hp h
    have h' : smSpec seq (q :: (qs ++ [p])) = true := h
    cases hq : isRegexPred q with
    | true =>
      obtain ⟨i, x, hs, h1, h2⟩ := (smSpec_cons_regex seq q _ hq).mp h'
      obtain ⟨hne2, h3⟩ := ih p _ hp h2
      have hi := (List.getElem?_eq_some_iff.mp hs).1
      have hlen : i + 1 < seq.length := by
        have : (seq.drop (i + 1)).length ≠ 0 := by intro e; exact hne2 (List.length_eq_zero_iff.mp e)
        simp at this; omega
      refine ⟨by intro e; simp [e] at hi, ?_⟩
      refine (smSpec_cons_regex seq.dropLast q qs hq).mpr ⟨i, x, ?_, h1, ?_⟩
      · rw [List.dropLast_eq_take, List.getElem?_take]; simp [hs]; omega
      · have : (seq.dropLast).drop (i + 1) = (seq.drop (i + 1)).dropLast := by
          simp [List.dropLast_eq_take, List.drop_take]; congr 1; omega
        rw [this]; exact h3
    | false =>
      obtain ⟨hne, h2⟩ := (smSpec_cons_other seq q _ hq).mp h'
      obtain ⟨hne2, h3⟩ := ih p _ hp h2
      refine ⟨hne, (smSpec_cons_other seq.dropLast q qs hq).mpr ⟨?_, ?_⟩⟩
      · intro e
        have : (seq.drop 1).length ≠ 0 := by intro e'; exact hne2 (List.length_eq_zero_iff.mp e')
        have e2 : seq.dropLast.length = 0 := by rw [e]; rfl
        simp at this e2; omega
      · have : (seq.dropLast).drop 1 = (seq.drop 1).dropLast := by
          simp [List.dropLast_eq_take, List.drop_take]
        rw [this]; exact h3

/-- the model of `_seq_match` answers yes whenever the front-to-back reading does -/
theorem smSpec_seqMatchEx : ∀ (f : Nat) (pat : List Pred) (seq : List Art), pat.length < f → smSpec seq pat = true → seqMatchEx f seq pat = true := by
  intro f
  induction f with
  | zero => intro pat seq h; omega
  | succ f ih =>
    intro pat seq hf h
    unfold seqMatchEx
    cases pat with
    | nil => simp
    | cons p1 prest =>
      have hlen := smSpec_length _ _ h
      have hne : seq ≠ [] := by intro e; simp [e] at hlen
      have hse : seq.isEmpty = false := by cases seq with | nil => exact absurd rfl hne | cons _ _ => rfl
      simp only [List.isEmpty_cons, Bool.false_eq_true, if_false, hse]
      cases hl : (p1 :: prest).getLast? with
      | none => simp at hl
      | some pl =>
        simp only
        cases hpl : isRegexPred pl with
        | false =>
          simp only [Bool.not_false, if_true]
          have hsplit : p1 :: prest = (p1 :: prest).dropLast ++ [pl] := by
            have hne' : p1 :: prest ≠ [] := by simp
            have h1 := List.dropLast_concat_getLast hne'
            have h2 : (p1 :: prest).getLast hne' = pl := by
              have := List.getLast?_eq_some_getLast hne'; rw [hl] at this; exact (Option.some.inj this).symm
            rw [h2] at h1; exact h1.symm
          rw [hsplit] at h
          obtain ⟨_, h2⟩ := smSpec_dropLast _ pl seq hpl h
          refine ih _ _ ?_ h2
          simp at hf ⊢; omega
        | true =>
          simp only [Bool.not_true, Bool.false_eq_true, if_false]
          have hgt : ¬ ((p1 :: prest).length > seq.length) := by omega
          simp only [hgt, if_false]
          cases hp1 : isRegexPred p1 with
          | false =>
            simp only [Bool.not_false, if_true]
            obtain ⟨_, h2⟩ := (smSpec_cons_other seq p1 prest hp1).mp h
            exact ih _ _ (by simp at hf; omega) h2
          | true =>
            simp only [Bool.not_true, Bool.false_eq_true, if_false]
            obtain ⟨i, a, hs, h1, h2⟩ := (smSpec_cons_regex seq p1 prest hp1).mp h
            have hi := (List.getElem?_eq_some_iff.mp hs).1
            simp only [List.any_eq_true, List.mem_range, Bool.and_eq_true]
            exact ⟨i, hi, by simp [hs, h1], ih _ _ (by simp at hf; omega) h2⟩

/-! ## descent from the initial sequence -/
/-- `Covers s p`: read left to right, every element of `p` is the next element of `s` kept as it is, or a value that
    stands for a non-empty block of `s` -/
inductive Covers : List Art → List Art → Prop
  | nil : Covers [] []
  | keep {a : Art} {s p : List Art} : Covers s p → Covers (a :: s) (a :: p)
  | block {x : Art} {b s p : List Art} : b ≠ [] → x.isVal = true → Covers s p → Covers (b ++ s) (x :: p)

theorem Covers.refl : ∀ s : List Art, Covers s s
  | [] => .nil
  | _ :: s => .keep (Covers.refl s)

/-- splitting a cover at a prefix of the production -/
theorem Covers.split : ∀ (l r : List Art) (s : List Art), Covers s (l ++ r) → ∃ s1 s2, s = s1 ++ s2 ∧ Covers s1 l ∧ Covers s2 r ∧ (l ≠ [] → s1 ≠ []) := by
  intro l
  induction l with
  | nil => intro r s h; exact ⟨[], s, rfl, .nil, h, fun e => absurd rfl e⟩
  | cons a l ih =>
    intro r s h
    cases h with
    | keep h' =>
      obtain ⟨s1, s2, e, c1, c2, _⟩ := ih r _ h'
      exact ⟨a :: s1, s2, by simp [e], .keep c1, c2, fun _ => by simp⟩
    | @block _ b s' _ hb hx h' =>
      obtain ⟨s1, s2, e, c1, c2, _⟩ := ih r _ h'
      exact ⟨b ++ s1, s2, by simp [e], .block hb hx c1, c2, fun _ => by intro e'; exact hb (List.append_eq_nil_iff.mp e').1⟩

theorem Covers.append {s1 p1 s2 p2 : List Art} (h1 : Covers s1 p1) (h2 : Covers s2 p2) : Covers (s1 ++ s2) (p1 ++ p2) := by
  induction h1 with
  | nil => exact h2
  | keep _ ih => exact .keep ih
  | @block x b s p hb hx _ ih => rw [List.append_assoc]; exact .block hb hx ih

/-- replacing a non-empty window of the production by one value keeps the cover -/
theorem Covers.replace (s l w r : List Art) (x : Art) (hw : w ≠ []) (hx : x.isVal = true) (h : Covers s (l ++ w ++ r)) : Covers s (l ++ x :: r) := by
  rw [List.append_assoc] at h
  obtain ⟨s1, s2, e, c1, c2, _⟩ := Covers.split l (w ++ r) s h
  obtain ⟨s3, s4, e', _, c4, hne⟩ := Covers.split w r s2 c2
  subst e; subst e'
  exact Covers.append c1 (.block (hne hw) hx c4)

/-- a pattern that matches a window of a descendant is found by the front-to-back reading on the initial sequence -/
theorem covers_prefix_smSpec : ∀ (pat : List Pred) (s p : List Art), Covers s p → pat.length ≤ p.length →
    (List.zipWith predHolds pat (p.take pat.length)).all id = true → smSpec s pat = true := by
  intro pat
  induction pat with
  | nil => intro s p _ _ _; rfl
  | cons q qs ih =>
    intro s p hc hl hall
    cases p with
    | nil => simp at hl
    | cons y ys =>
      simp only [List.length_cons, List.take_succ_cons, List.zipWith_cons_cons, List.all_cons, Bool.and_eq_true, id] at hall
      obtain ⟨hq, hrest⟩ := hall
      have hl' : qs.length ≤ ys.length := by simp at hl; omega
      cases hc with
      | keep hc' =>
        rename_i s'
        have hs := ih s' ys hc' hl' hrest
        cases hqr : isRegexPred q with
        | true => exact (smSpec_cons_regex _ q qs hqr).mpr ⟨0, y, by simp, hq, by simpa using hs⟩
        | false => exact (smSpec_cons_other _ q qs hqr).mpr ⟨by simp, by simpa using hs⟩
      | @block _ b s' _ hb hx hc' =>
        have hs := ih s' ys hc' hl' hrest
        -- a value never satisfies a pattern-match predicate
        have hqr : isRegexPred q = false := by
          cases q with
          | regex id =>
            exfalso
            unfold predHolds at hq
            cases hv : y.v with
            | tok k => simp [Art.isVal, hv] at hx
            | time t => simp [hv] at hq
            | interval f t => simp [hv] at hq
            | duration n u => simp [hv] at hq
          | dim _ => rfl
          | attr _ => rfl
          | other _ => rfl
        refine (smSpec_cons_other _ q qs hqr).mpr ⟨by intro e; exact hb (List.append_eq_nil_iff.mp e).1, ?_⟩
        cases b with
        | nil => exact absurd rfl hb
        | cons b0 bs =>
          simp only [List.cons_append, List.drop_succ_cons, List.drop_zero]
          exact smSpec_mono_append qs bs s' hs

theorem covers_window_smSpec (pat : List Pred) (s p : List Art) (hc : Covers s p) (i : Nat)
    (hlen : ((p.drop i).take pat.length).length = pat.length)
    (hall : (List.zipWith predHolds pat ((p.drop i).take pat.length)).all id = true) : smSpec s pat = true := by
  have hp : p = p.take i ++ p.drop i := (List.take_append_drop i p).symm
  rw [hp] at hc
  obtain ⟨s1, s2, e, _, c2, _⟩ := Covers.split _ _ s hc
  subst e
  apply smSpec_mono_append
  refine covers_prefix_smSpec pat s2 (p.drop i) c2 ?_ hall
  have := hlen
  simp only [List.length_take, List.length_drop] at this
  simp only [List.length_drop]
  omega

end QuickAdd
