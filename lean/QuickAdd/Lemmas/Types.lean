import QuickAdd.Model.Rules
/-! Field characterisations of the predicates (computed over the generated `_attrs` list) and well-formedness. -/
namespace QuickAdd

theorem isDate_iff (t : Time) : t.isDate = true ↔ (t.year.isSome ∧ t.month.isSome ∧ t.day.isSome ∧ t.hour.isNone ∧ t.minute.isNone ∧ t.dow.isNone ∧ t.pod.isNone) := by
  simp [Time.isDate, Time.hasOnly, Gen.timeAttrs, Time.isSet]
theorem isTOD_iff (t : Time) : t.isTOD = true ↔ (t.year.isNone ∧ t.month.isNone ∧ t.day.isNone ∧ t.hour.isSome ∧ t.dow.isNone ∧ t.pod.isNone) := by
  simp [Time.isTOD, Time.hasOnly, Gen.timeAttrs, Time.isSet]
  cases t.year <;> cases t.month <;> cases t.day <;> cases t.hour <;> cases t.minute <;> cases t.dow <;> cases t.pod <;> simp
theorem isDOM_iff (t : Time) : t.isDOM = true ↔ (t.year.isNone ∧ t.month.isNone ∧ t.day.isSome ∧ t.hour.isNone ∧ t.minute.isNone ∧ t.dow.isNone ∧ t.pod.isNone) := by
  simp [Time.isDOM, Time.hasOnly, Gen.timeAttrs, Time.isSet]
theorem isDOW_iff (t : Time) : t.isDOW = true ↔ (t.year.isNone ∧ t.month.isNone ∧ t.day.isNone ∧ t.hour.isNone ∧ t.minute.isNone ∧ t.dow.isSome ∧ t.pod.isNone) := by
  simp [Time.isDOW, Time.hasOnly, Gen.timeAttrs, Time.isSet]
theorem isPOD_iff (t : Time) : t.isPOD = true ↔ (t.year.isNone ∧ t.month.isNone ∧ t.day.isNone ∧ t.hour.isNone ∧ t.minute.isNone ∧ t.dow.isNone ∧ t.pod.isSome) := by
  simp [Time.isPOD, Time.hasOnly, Gen.timeAttrs, Time.isSet]
theorem isDOY_iff (t : Time) : t.isDOY = true ↔ (t.year.isNone ∧ t.month.isSome ∧ t.day.isSome ∧ t.hour.isNone ∧ t.minute.isNone ∧ t.dow.isNone ∧ t.pod.isNone) := by
  simp [Time.isDOY, Time.hasOnly, Gen.timeAttrs, Time.isSet]
theorem isDateTime_iff (t : Time) : t.isDateTime = true ↔ (t.year.isSome ∧ t.month.isSome ∧ t.day.isSome ∧ t.hour.isSome ∧ t.dow.isNone ∧ t.pod.isNone) := by
  simp [Time.isDateTime, Time.hasOnly, Gen.timeAttrs, Time.isSet]
  cases t.year <;> cases t.month <;> cases t.day <;> cases t.hour <;> cases t.minute <;> cases t.dow <;> cases t.pod <;> simp
theorem hasDate_iff (t : Time) : t.hasDate = true ↔ (t.year.isSome ∧ t.month.isSome ∧ t.day.isSome) := by
  simp [Time.hasDate, Time.hasAtLeast, Time.isSet, and_assoc]

def inR (lo hi : Int) (o : Option Int) : Bool := match o with | some x => decide (lo ≤ x) && decide (x ≤ hi) | none => true

/-- field-wise well-formedness (C02): month 1–12, hour 0–23, minute 0–59, weekday 0–6, day 1–31, year 1–9999,
    part of day known to the table -/
def Time.WFf (t : Time) : Bool :=
  inR 1 9999 t.year && inR 1 12 t.month && inR 1 31 t.day && inR 0 23 t.hour && inR 0 59 t.minute && inR 0 6 t.dow &&
  (match t.pod with | some p => (podLookup p).isSome | none => true)

/-- … and the day exists in the month (and year, if given) -/
def Time.WF (t : Time) : Bool := t.WFf && timeCalOk t

def Val.WF : Val → Bool
  | .tok _ => true
  | .time t => t.WF
  | .interval f t => (match f with | some a => a.WF | none => true) && (match t with | some a => a.WF | none => true)
  | .duration n _ => decide (0 ≤ n)

end QuickAdd
