import QuickAdd.Model.Rules
/-! Text codec of the driver's line protocol (values as single blank-free tokens). -/
namespace QuickAdd

def optIntS : Option Int → String | some x => toString x | none => "N"
def parseOptInt (s : String) : Option (Option Int) := if s == "N" then some none else s.toInt?.map some

def Time.enc (t : Time) : String :=
  ":".intercalate [optIntS t.year, optIntS t.month, optIntS t.day, optIntS t.hour, optIntS t.minute, optIntS t.dow, t.pod.getD "N"]

def Time.dec (s : String) : Option Time :=
  match s.splitOn ":" with
  | [y, m, d, h, mi, w, p] => do
    pure { year := ← parseOptInt y, month := ← parseOptInt m, day := ← parseOptInt d, hour := ← parseOptInt h,
           minute := ← parseOptInt mi, dow := ← parseOptInt w, pod := if p == "N" then none else some p }
  | _ => none

def optTimeEnc : Option Time → String | some t => t.enc | none => "N"
def optTimeDec (s : String) : Option (Option Time) := if s == "N" then some none else (Time.dec s).map some

def cpsEnc (l : List Nat) : String := ".".intercalate (l.map toString)
def cpsDec (s : String) : List Nat := (s.splitOn ".").filterMap (·.toNat?)

def Val.enc : Val → String
  | .tok k => "K:" ++ toString k.id ++ ":" ++ ";".intercalate (k.caps.map fun (n, t) => n ++ "=" ++ cpsEnc t)
  | .time t => "T:" ++ t.enc
  | .interval f t => "I:" ++ optTimeEnc f ++ "/" ++ optTimeEnc t
  | .duration n u => "D:" ++ toString n ++ ":" ++ u.name

def Art.enc (a : Art) : String := a.v.enc ++ "@" ++ toString a.ms ++ ":" ++ toString a.me

def Val.dec (s : String) : Option Val :=
  if s.startsWith "T:" then (Time.dec (s.drop 2).toString).map .time
  else if s.startsWith "I:" then
    match (s.drop 2).toString.splitOn "/" with
    | [a, b] => do pure (.interval (← optTimeDec a) (← optTimeDec b))
    | _ => none
  else if s.startsWith "D:" then
    match (s.drop 2).toString.splitOn ":" with
    | [n, u] => do pure (.duration (← n.toInt?) (← DUnit.ofName u))
    | _ => none
  else if s.startsWith "K:" then
    match (s.drop 2).toString.splitOn ":" with
    | [id, caps] => do
      let cs := (caps.splitOn ";").filterMap fun c =>
        match c.splitOn "=" with
        | [n, t] => if n.isEmpty then none else some (n, cpsDec t)
        | _ => none
      pure (.tok { id := ← id.toNat?, caps := cs })
    | _ => none
  else none

def Art.dec (s : String) : Option Art :=
  match s.splitOn "@" with
  | [v, sp] =>
    match sp.splitOn ":" with
    | [a, b] => do pure { v := ← Val.dec v, ms := ← a.toNat?, me := ← b.toNat? }
    | _ => none
  | _ => none

def Ts.dec (s : String) : Option Ts :=
  match (s.splitOn ",").map String.toInt? with
  | [some y, some m, some d, some h, some mi] => some ⟨⟨y, m, d⟩, h, mi⟩
  | _ => none

def PyErr.name : PyErr → String
  | .typeError => "TypeError" | .valueError => "ValueError" | .keyError => "KeyError" | .overflowError => "OverflowError"
  | .attributeError => "AttributeError" | .indexError => "IndexError" | .mathDomain => "MathDomain" | .unmodelled => "Unmodelled"

end QuickAdd
