import QuickAdd.Model.Types
import QuickAdd.Gen.Classes
import QuickAdd.Gen.RuleSigs
/-!
# The productions of `ctparse/time/rules.py` and the latent post-processing
One Lean function per production, same branch structure as the Python; Python truthiness explicit.
A production returns `Except PyErr (Option Val)`: `.ok none` = production fails (`None`), `.error` = raises.
-/
namespace QuickAdd
open Gen

abbrev R := Except PyErr (Option Val)

def need (o : Option Int) : Except PyErr Int := match o with | some x => pure x | none => throw .typeError
def needS (o : Option String) : Except PyErr String := match o with | some x => pure x | none => throw .typeError
/-- Python truthiness of an optional int (`if t.minute:`) -/
def truthy (o : Option Int) : Bool := match o with | some x => x != 0 | none => false

/-- decimal value of one digit code point, by the generated table (`int()` of this interpreter) -/
def digitVal (c : Nat) : Option Nat :=
  match Gen.digitVals.find? (fun r => r.1 ≤ c && c ≤ r.2) with
  | some (lo, _) => some ((c - lo) % 10)
  | none => none

/-- `int(text)` for a non-empty run of digit code points -/
def pyInt (s : List Nat) : Except PyErr Int :=
  if s.isEmpty then throw .valueError else
  s.foldlM (fun (acc : Int) c => match digitVal c with
    | some v => pure (acc * 10 + v) | none => throw PyErr.valueError) 0

def grpInt (k : Tok) (name : String) : Except PyErr Int :=
  match k.group name with | some t => pyInt t | none => throw .typeError

def tsTime (d : Date) : Time := { year := some d.y, month := some d.m, day := some d.d }

/-- result of date arithmetic must be representable (`datetime` range) -/
def dateOk (d : Date) : Except PyErr Date := if d.inRange then pure d else throw .overflowError

def isInfix (needle hay : List Char) : Bool :=
  match hay with
  | [] => needle.isEmpty
  | _ :: t => needle.isPrefixOf hay || isInfix needle t
def strIn (needle hay : String) : Bool := isInfix needle.toList hay.toList

/-- index of the first name in `names` whose group is truthy -/
def firstSet (k : Tok) (names : List String) : Option Nat := names.findIdx? (k.has ·)

/-! ### single-token productions -/
def ruleNamedDOW (k : Tok) : R := pure <| (firstSet k dows).map fun i => .time { dow := some i }
def ruleNamedMonth (k : Tok) : R := pure <| (firstSet k months).map fun i => .time { month := some (i + 1) }
def ruleNamedHour (k : Tok) : R :=
  pure <| (namedTs.find? fun n => k.has s!"t_{n}").map fun n => .time { hour := some n, minute := some 0 }
def ruleMidnight : R := pure <| some <| .time { hour := some 0, minute := some 0 }

def podFromMatch (pod : String) (k : Tok) : String :=
  let mod := if k.has "mod_early" then "early" else if k.has "mod_late" then "late" else ""
  let mod := if k.has "mod_very" then "very" ++ mod else mod
  mod ++ pod

def ruleEarlyLatePOD (k : Tok) (p : Time) : R := do
  let pod := podFromMatch (← needS p.pod) k
  if (podLookup pod).isNone then pure none else pure <| some <| .time { pod := some pod }

def rulePOD (k : Tok) : R := pure <| (pods.find? (k.has ·)).map fun p => .time { pod := some p }

def ruleDOM1 (k : Tok) : R := do pure <| some <| .time { day := some (← grpInt k "day") }
def ruleMonthOrdinal (k : Tok) : R := do pure <| some <| .time { month := some (← grpInt k "month") }
def ruleDOM2 (k : Tok) : R := do pure <| some <| .time { day := some (← grpInt k "day") }

def ruleYear (ts : Ts) (k : Tok) : R := do
  let y ← grpInt k "year"
  let cc := ts.date.y / 100
  let yy := ts.date.y % 100
  if y < 100 then
    if y < yy + 10 then pure <| some <| .time { year := some (cc * 100 + y) }
    else pure <| some <| .time { year := some ((cc - 1) * 100 + y) }
  else pure <| some <| .time { year := some y }

def ruleToday (ts : Ts) : R := pure <| some <| .time (tsTime ts.date)
def ruleNow (ts : Ts) : R := pure <| some <| .time { tsTime ts.date with hour := some ts.h, minute := some ts.mi }
def relDays (ts : Ts) (n : Int) : R := do pure <| some <| .time (tsTime (← dateOk (ts.date.addDays n)))
def ruleTomorrow (ts : Ts) : R := relDays ts 1
def ruleAfterTomorrow (ts : Ts) : R := relDays ts 2
def ruleYesterday (ts : Ts) : R := relDays ts (-1)
def ruleBeforeYesterday (ts : Ts) : R := relDays ts (-2)

/-- `ts + relativedelta(day=1, months=1, days=-1)` -/
def ruleEOM (ts : Ts) : R := do
  let a ← dateOk (ts.date.addMonthsClip 1)
  let b : Date := { a with d := 1 }
  pure <| some <| .time (tsTime (← dateOk (b.addDays (-1))))
/-- `ts + relativedelta(day=1, month=1, years=1, days=-1)` -/
def ruleEOY (ts : Ts) : R := do
  let a ← dateOk (ts.date.addMonthsClip 12)
  let b : Date := ⟨a.y, 1, 1⟩
  pure <| some <| .time (tsTime (← dateOk (b.addDays (-1))))

/-! ### gluing day, month, year -/
def ruleDOMMonth (dom m : Time) : R := pure <| some <| .time { day := dom.day, month := m.month }
def ruleMonthDOM (m dom : Time) : R := pure <| some <| .time { month := m.month, day := dom.day }

def weekdayArg (w : Int) : Except PyErr Int := if 0 ≤ w && w ≤ 6 then pure w else throw .valueError

def ruleAtDOW (ts : Ts) (dow : Time) : R := do
  let w ← weekdayArg (← need dow.dow)
  let dm := ts.date.toWeekday w
  let dm := if dm == ts.date then dm.addDays 7 else dm
  pure <| some <| .time (tsTime (← dateOk dm))

def ruleNextDOW (ts : Ts) (dow : Time) : R := do
  let w ← weekdayArg (← need dow.dow)
  pure <| some <| .time (tsTime (← dateOk ((ts.date.addDays 7).toWeekday w)))

def ruleDOYYear (doy y : Time) : R := pure <| some <| .time { year := y.year, month := doy.month, day := doy.day }
def ruleDOWPOD (dow pod : Time) : R := pure <| some <| .time { dow := dow.dow, pod := pod.pod }

def ruleDOWDOM (ts : Ts) (dow dom : Time) : R := do
  let w ← weekdayArg (← need dow.dow)
  let d ← need dom.day
  match rruleMonthly ts.date w d (12 * 8000) (12 * ts.date.y + (ts.date.m - 1)) with
  | some c => pure <| some <| .time (tsTime c)
  | none => throw .indexError

def ruleDOWDate (dow date : Time) : R :=
  pure <| some <| .time { year := date.year, month := date.month, day := date.day, pod := dow.pod }

/-! ### latent rules -/
/-- repaired `ruleLatentDOM`: first of 13 months (from the reference month) that has day `d` after today -/
def latentDOMLoop (ts : Ts) (d : Int) : Nat → Int → Option Date
  | 0, _ => none
  | f+1, mi =>
    let y := mi / 12
    let m := mi % 12 + 1
    let c : Date := ⟨y, m, d⟩
    if d ≤ dim y m && ts.date.ord < c.ord then some c else latentDOMLoop ts d f (mi + 1)

def ruleLatentDOM (ts : Ts) (dom : Time) : R := do
  let d ← need dom.day
  match latentDOMLoop ts d 13 (12 * ts.date.y + (ts.date.m - 1)) with
  | some c => do let c ← dateOk c; pure <| some <| .time (tsTime c)
  | none => pure none

def ruleLatentDOW (ts : Ts) (dow : Time) : R := ruleAtDOW ts dow   -- `dm <= ts` ⇔ same date

def latentDOYLoop (ts : Ts) (m d : Int) : Nat → Int → Option Date
  | 0, _ => none
  | f+1, y =>
    let c : Date := ⟨y, m, d⟩
    if d ≤ dim y m && ts.date.ord ≤ c.ord then some c else latentDOYLoop ts m d f (y + 1)

def ruleLatentDOY (ts : Ts) (doy : Time) : R := do
  let m ← need doy.month
  let d ← need doy.day
  if !(1 ≤ m && m ≤ 12) then throw .valueError
  match latentDOYLoop ts m d 9 ts.date.y with
  | some c => do let c ← dateOk c; pure <| some <| .time (tsTime c)
  | none => pure none

def ruleLatentPOD (ts : Ts) (pod : Time) : R := do
  let p ← needS pod.pod
  match podLookup p with
  | none => throw .keyError
  | some (hFrom, _) =>
    if !(0 ≤ hFrom && hFrom ≤ 23) then throw .valueError
    let d := if hFrom * 60 ≤ ts.h * 60 + ts.mi then ts.date.addDays 1 else ts.date
    let d ← dateOk d
    pure <| some <| .time { tsTime d with pod := some p }

/-! ### numeric dates -/
def monthOf (k : Tok) : Except PyErr Int :=
  if k.has "month" then grpInt k "month"
  else match (months.zipIdx.filter fun (n, _) => k.has n).getLast? with
    | some (_, i) => pure (i + 1)
    | none => throw .unmodelled        -- UnboundLocalError: unreachable through the pattern

def ruleDDMM (k : Tok) : R := do
  let month ← monthOf k
  pure <| some <| .time { month := some month, day := some (← grpInt k "day") }

def ruleDDMMYYYY (k : Tok) : R := do
  let y ← grpInt k "year"
  let y := if y < 100 then y + 2000 else y
  let month ← monthOf k
  pure <| some <| .time { year := some y, month := some month, day := some (← grpInt k "day") }

/-! ### clock times -/
def isValidMilitary (ts : Ts) (t : Time) : Except PyErr Bool := do
  match t.hour, t.minute with
  | some h, some mi =>
    let tYear := h * 100 + mi
    if tYear == ts.date.y then pure false
    else
      let y3 := (← dateOk (ts.date.addMonthsClip 3)).y
      if tYear == y3 then pure false
      else if mi % 5 != 0 then pure false else pure true
  | _, _ => pure false

/-- `_maybe_apply_am_pm` (repaired: 12 am is midnight); `ampm` is the captured text or `none` -/
def applyAmPm (t : Time) (ampm : Option (List Nat)) : Time :=
  if !truthy t.hour then t else
  match ampm with
  | none => t
  | some s =>
    let c := s.head?
    let isA := c == some 97 || c == some 65
    let isP := c == some 112 || c == some 80
    match t.hour with
    | some h =>
      if isA && h == 12 then { hour := some 0, minute := t.minute }
      else if isA && h < 12 then t
      else if isP && h < 12 then { hour := some (h + 12), minute := t.minute }
      else t
    | none => t

/-- `int(m.match.group("minute") or 0)` -/
def minuteOr0 (k : Tok) : Except PyErr Int := if k.has "minute" then grpInt k "minute" else pure 0

def ruleHHMMmilitary (ts : Ts) (k : Tok) : R := do
  let t : Time := { hour := some (← grpInt k "hour"), minute := some (← minuteOr0 k) }
  if k.has "clock" || (← isValidMilitary ts t) then pure <| some <| .time (applyAmPm t (k.group "ampm"))
  else pure none

def ruleHHMM (k : Tok) : R := do
  let t : Time := { hour := some (← grpInt k "hour"), minute := some (← minuteOr0 k) }
  pure <| some <| .time (applyAmPm t (k.group "ampm"))

def ruleHHOClock (k : Tok) : R := do pure <| some <| .time { hour := some (← grpInt k "hour") }

def ruleQuarterBeforeHH (t : Time) : R := do
  if truthy t.minute then pure none else
  let h ← need t.hour
  if h > 0 then pure <| some <| .time { hour := some (h - 1), minute := some 45 }
  else pure <| some <| .time { hour := some 23, minute := some 45 }
def ruleQuarterAfterHH (t : Time) : R :=
  if truthy t.minute then pure none else pure <| some <| .time { hour := t.hour, minute := some 15 }
def ruleHalfBeforeHH (t : Time) : R := do
  if truthy t.minute then pure none else
  let h ← need t.hour
  if h > 0 then pure <| some <| .time { hour := some (h - 1), minute := some 30 }
  else pure <| some <| .time { hour := some 23, minute := some 30 }
def ruleHalfAfterHH (t : Time) : R :=
  if truthy t.minute then pure none else pure <| some <| .time { hour := t.hour, minute := some 30 }

def podIsPm (p : String) : Bool := strIn "afternoon" p || strIn "evening" p || strIn "night" p || strIn "last" p
def podIsAm (p : String) : Bool := strIn "forenoon" p || strIn "morning" p || strIn "first" p

def ruleTODPOD (tod pod : Time) : R := do
  let h ← need tod.hour
  let p ← needS pod.pod
  if h < 12 && podIsPm p then pure <| some <| .time { hour := some (h + 12), minute := tod.minute }
  else if h > 12 && podIsAm p then pure none
  else pure <| some <| .time { hour := some h, minute := tod.minute }

def ruleDateTOD (date tod : Time) : R :=
  pure <| some <| .time { year := date.year, month := date.month, day := date.day, hour := tod.hour, minute := tod.minute }
def ruleDatePOD (d pod : Time) : R :=
  pure <| some <| .time { year := d.year, month := d.month, day := d.day, pod := pod.pod }

/-! ### intervals -/
def ruleBeforeTime (k : Tok) (t : Time) : R :=
  if k.has "not" then pure <| some <| .interval (some t) none else pure <| some <| .interval none (some t)
def ruleAfterTime (k : Tok) (t : Time) : R :=
  if k.has "not" then pure <| some <| .interval none (some t) else pure <| some <| .interval (some t) none

def ruleDateDate (d1 d2 : Time) : R := do
  let y1 ← need d1.year; let y2 ← need d2.year
  if y1 > y2 then return none
  let m1 ← need d1.month; let m2 ← need d2.month
  if y1 == y2 && m1 > m2 then return none
  let a ← need d1.day; let b ← need d2.day
  if y1 == y2 && m1 == m2 && a ≥ b then return none
  pure <| some <| .interval (some d1) (some d2)

def ruleDOMDate (d1 d2 : Time) : R := do
  let a ← need d1.day; let b ← need d2.day
  if a ≥ b then return none
  pure <| some <| .interval (some { year := d2.year, month := d2.month, day := d1.day }) (some d2)

def ruleDateDOM (d1 d2 : Time) : R := do
  let a ← need d1.day; let b ← need d2.day
  if a ≥ b then return none
  pure <| some <| .interval (some d1) (some { year := d1.year, month := d1.month, day := d2.day })

def ruleDOYDate (d1 d2 : Time) : R := do
  let m1 ← need d1.month; let m2 ← need d2.month
  if m1 > m2 then return none
  if m1 == m2 then
    let a ← need d1.day; let b ← need d2.day
    if a ≥ b then return none
  pure <| some <| .interval (some { year := d2.year, month := d1.month, day := d1.day }) (some d2)

def ruleDateTimeDateTime (d1 d2 : Time) : R := do
  let y1 ← need d1.year; let y2 ← need d2.year
  if y1 > y2 then return none
  let m1 ← need d1.month; let m2 ← need d2.month
  if y1 == y2 && m1 > m2 then return none
  let a ← need d1.day; let b ← need d2.day
  if y1 == y2 && m1 == m2 && a > b then return none
  let h1 ← need d1.hour; let h2 ← need d2.hour
  if y1 == y2 && m1 == m2 && a == b && h1 > h2 then return none
  if y1 == y2 && m1 == m2 && a == b && h1 == h2 && d1.minute.getD 0 ≥ d2.minute.getD 0 then return none
  pure <| some <| .interval (some d1) (some d2)

/-- repaired `ruleTODTOD`: implicit am→pm only if the shifted end is after the start -/
def ruleTODTOD (t1 t2 : Time) : R := do
  let h1 ← need t1.hour; let h2 ← need t2.hour
  let m1 := t1.minute.getD 0; let m2 := t2.minute.getD 0
  if h1 > h2 && (h1 ≤ 12 && h2 ≤ 12) && ((h2 + 12) * 60 + m2 > h1 * 60 + m1) then
    pure <| some <| .interval (some t1) (some { hour := some (h2 + 12), minute := t2.minute })
  else pure <| some <| .interval (some t1) (some t2)

def rulePODPOD (t1 t2 : Time) : R := pure <| some <| .interval (some t1) (some t2)

def tsToTime (t : Ts) (pod : Option String) : Time :=
  { year := some t.date.y, month := some t.date.m, day := some t.date.d, hour := some t.h, minute := some t.mi, pod := pod }

/-- the "9-5" condition of `ruleDateInterval`: both hours ≤ 12, start hour ≥ end hour, and (repaired) the end shifted by
    12 hours lies after the start (`da`, `db` in minutes) -/
def shift12 (ha hb da db : Int) : Bool := ha ≤ 12 && hb ≤ 12 && ha ≥ hb && db + 12 * 60 > da

def ruleDateInterval (d : Time) (f t : Option Time) : R := do
  let okEnd (x : Option Time) : Bool := match x with | none => true | some x => x.isTOD || x.isPOD
  if !(okEnd f && okEnd t) then return none
  let mk (x : Time) : Time := { year := d.year, month := d.month, day := d.day, hour := x.hour, minute := x.minute, pod := x.pod }
  let tFrom := f.map mk
  let tTo := t.map mk
  match tFrom, tTo with
  | some a, some b =>
    let da ← a.dt
    let db ← b.dt
    if da.minutes ≥ db.minutes then
      match a.hour, b.hour with
      | some ha, some hb =>
        if shift12 ha hb da.minutes db.minutes then
          let e := db.addMinutes (12 * 60)
          let _ ← dateOk e.date
          return some <| .interval (some a) (some (tsToTime e b.pod))
        else
          let e := db.addMinutes (24 * 60)
          let _ ← dateOk e.date
          return some <| .interval (some a) (some (tsToTime e b.pod))
      | _, _ =>
        let e := db.addMinutes (24 * 60)
        let _ ← dateOk e.date
        return some <| .interval (some a) (some (tsToTime e b.pod))
    else return some <| .interval (some a) (some b)
  | _, _ => return some <| .interval tFrom tTo

def rulePODInterval (p : Time) (f t : Option Time) : R := do
  let pod ← needS p.pod
  let adjust (x : Time) : Option Int := match x.hour with
    | none => none
    | some h => if h < 12 && podIsPm pod then some (h + 12) else some h
  let okEnd (x : Option Time) : Bool := match x with | none => true | some x => x.hasTime
  if !(okEnd f && okEnd t) then return none
  let mk (x : Time) : Time := { year := x.year, month := x.month, day := x.day, hour := adjust x, minute := x.minute, dow := x.dow }
  let tTo := t.map mk
  let tFrom := f.map mk
  match tFrom, tTo with
  | some a, some b =>
    if a.hasDate && b.hasDate then
      let da ← a.dt
      let db ← b.dt
      if da.minutes ≥ db.minutes then return none
    return some <| .interval tFrom tTo
  | _, _ => return some <| .interval tFrom tTo

/-! ### durations -/
def unitOf (k : Tok) : Option DUnit := (durations.find? fun u => k.has ("d_" ++ u)).bind DUnit.ofName

def ruleDigitDuration (k : Tok) : R := do
  if k.has "num" then
    match durations.find? fun u => k.has ("d_" ++ u) with
    | some u => match DUnit.ofName u with
      | some du => return some <| .duration (← grpInt k "num") du
      | none => throw .unmodelled
    | none => return none
  else return none

def ruleNamedNumberDuration (k : Tok) : R := do
  let num := (namedNumbers.filter fun n => k.has s!"n_{n}").getLast?
  match num with
  | some n =>
    if n == 0 then return none
    match durations.find? fun u => k.has ("d_" ++ u) with
    | some u => match DUnit.ofName u with
      | some du => return some <| .duration n du
      | none => throw .unmodelled
    | none => return none
  | none => return none

def ruleDurationHalf (k : Tok) : R := do
  -- the loop returns at the first unit whose group is set and which is HOURS or DAYS
  let hit := durations.find? fun u => k.has ("d_" ++ u) && (u == "hours" || u == "days")
  match hit with
  | some "hours" => return some <| .duration 30 .minutes
  | some "days" => return some <| .duration 12 .hours
  | _ => return none

/-- `.days` of `_duration_to_relativedelta(dur)` after dateutil's normalisation (non-negative amounts) -/
def durDays (n : Int) (u : DUnit) : Int :=
  match u with
  | .days => n | .nights => n | .weeks => 7 * n | .months => 0
  | .hours => n / 24 | .minutes => n / 1440

def ruleDurationInterval (n : Int) (u : DUnit) (f t : Option Time) : R := do
  match f, t with
  | some a, some b =>
    let da ← a.dt
    let db ← b.dt
    -- timedelta.days of the difference of two midnights
    let delta := (db.minutes - da.minutes) / 1440
    if delta == durDays n u then return some <| .interval f t else return none
  | _, _ => throw .attributeError

/-- `_time_duration` inside the repaired `ruleTimeDuration` (Overflow/ValueError ⇒ production fails) -/
def ruleTimeDuration (t : Time) (n : Int) (u : DUnit) : R := do
  -- `t.dt`: KeyError (unknown POD) escapes, ValueError is caught
  let s ← t.start
  match t.dt with
  | .error .valueError => return none
  | .error e => throw e
  | .ok dt =>
    let _ := s
    let dateEnd (d : Date) : R :=
      if d.inRange then return some <| .interval (some t) (some (tsTime d)) else return none
    match u with
    | .days | .nights => dateEnd (dt.date.addDays n)
    | .weeks => dateEnd (dt.date.addDays (7 * n))
    | .months => dateEnd (dt.date.addMonthsClip n)
    | .hours | .minutes =>
      let e := dt.addMinutes (if u == .hours then 60 * n else n)
      if e.date.inRange then
        return some <| .interval (some t) (some { year := some e.date.y, month := some e.date.m, day := some e.date.d,
                                                    hour := some e.h, minute := some e.mi })
      else return none

/-! ### dispatcher: `(rule name, argument values) ↦ production` -/
/-- the modelled productions (one constructor per registered rule name) -/
inductive RuleId where
  | ruleAbsorbOnTime | ruleAbsorbFromInterval | ruleNamedDOW | ruleNamedMonth | ruleNamedHour | ruleMidnight
  | ruleEarlyLatePOD | rulePOD | ruleDOM1 | ruleMonthOrdinal | ruleDOM2 | ruleYear
  | ruleToday | ruleNow | ruleTomorrow | ruleAfterTomorrow | ruleYesterday | ruleBeforeYesterday
  | ruleEOM | ruleEOY | ruleDOMMonth | ruleDOMMonth2 | ruleMonthDOM | ruleAtDOW
  | ruleNextDOW | ruleDOWNextWeek | ruleDOYYear | ruleDOWPOD | ruleDOWDOM | ruleDOWDate
  | ruleDateDOW | ruleLatentDOM | ruleLatentDOW | ruleLatentDOY | ruleLatentPOD | ruleDDMM
  | ruleMMDD | ruleDDMMYYYY | ruleHHMMmilitary | ruleHHMM | ruleHHOClock | ruleQuarterBeforeHH
  | ruleQuarterAfterHH | ruleHalfBeforeHH | ruleHalfAfterHH | ruleTODPOD | rulePODTOD | ruleDateTOD
  | ruleTODDate | ruleDatePOD | rulePODDate | ruleBeforeTime | ruleAfterTime | ruleDateDate
  | ruleDOMDate | ruleDateDOM | ruleDOYDate | ruleDateTimeDateTime | ruleTODTOD | rulePODPOD
  | ruleDateInterval | rulePODInterval | ruleDigitDuration | ruleNamedNumberDuration | ruleDurationHalf | ruleIntervalConjDuration
  | ruleIntervalDuration | ruleDurationInterval | ruleTimeDuration
  deriving DecidableEq, Repr

def RuleId.all : List (String × RuleId) := [
  ("ruleAbsorbOnTime", .ruleAbsorbOnTime),
  ("ruleAbsorbFromInterval", .ruleAbsorbFromInterval),
  ("ruleNamedDOW", .ruleNamedDOW),
  ("ruleNamedMonth", .ruleNamedMonth),
  ("ruleNamedHour", .ruleNamedHour),
  ("ruleMidnight", .ruleMidnight),
  ("ruleEarlyLatePOD", .ruleEarlyLatePOD),
  ("rulePOD", .rulePOD),
  ("ruleDOM1", .ruleDOM1),
  ("ruleMonthOrdinal", .ruleMonthOrdinal),
  ("ruleDOM2", .ruleDOM2),
  ("ruleYear", .ruleYear),
  ("ruleToday", .ruleToday),
  ("ruleNow", .ruleNow),
  ("ruleTomorrow", .ruleTomorrow),
  ("ruleAfterTomorrow", .ruleAfterTomorrow),
  ("ruleYesterday", .ruleYesterday),
  ("ruleBeforeYesterday", .ruleBeforeYesterday),
  ("ruleEOM", .ruleEOM),
  ("ruleEOY", .ruleEOY),
  ("ruleDOMMonth", .ruleDOMMonth),
  ("ruleDOMMonth2", .ruleDOMMonth2),
  ("ruleMonthDOM", .ruleMonthDOM),
  ("ruleAtDOW", .ruleAtDOW),
  ("ruleNextDOW", .ruleNextDOW),
  ("ruleDOWNextWeek", .ruleDOWNextWeek),
  ("ruleDOYYear", .ruleDOYYear),
  ("ruleDOWPOD", .ruleDOWPOD),
  ("ruleDOWDOM", .ruleDOWDOM),
  ("ruleDOWDate", .ruleDOWDate),
  ("ruleDateDOW", .ruleDateDOW),
  ("ruleLatentDOM", .ruleLatentDOM),
  ("ruleLatentDOW", .ruleLatentDOW),
  ("ruleLatentDOY", .ruleLatentDOY),
  ("ruleLatentPOD", .ruleLatentPOD),
  ("ruleDDMM", .ruleDDMM),
  ("ruleMMDD", .ruleMMDD),
  ("ruleDDMMYYYY", .ruleDDMMYYYY),
  ("ruleHHMMmilitary", .ruleHHMMmilitary),
  ("ruleHHMM", .ruleHHMM),
  ("ruleHHOClock", .ruleHHOClock),
  ("ruleQuarterBeforeHH", .ruleQuarterBeforeHH),
  ("ruleQuarterAfterHH", .ruleQuarterAfterHH),
  ("ruleHalfBeforeHH", .ruleHalfBeforeHH),
  ("ruleHalfAfterHH", .ruleHalfAfterHH),
  ("ruleTODPOD", .ruleTODPOD),
  ("rulePODTOD", .rulePODTOD),
  ("ruleDateTOD", .ruleDateTOD),
  ("ruleTODDate", .ruleTODDate),
  ("ruleDatePOD", .ruleDatePOD),
  ("rulePODDate", .rulePODDate),
  ("ruleBeforeTime", .ruleBeforeTime),
  ("ruleAfterTime", .ruleAfterTime),
  ("ruleDateDate", .ruleDateDate),
  ("ruleDOMDate", .ruleDOMDate),
  ("ruleDateDOM", .ruleDateDOM),
  ("ruleDOYDate", .ruleDOYDate),
  ("ruleDateTimeDateTime", .ruleDateTimeDateTime),
  ("ruleTODTOD", .ruleTODTOD),
  ("rulePODPOD", .rulePODPOD),
  ("ruleDateInterval", .ruleDateInterval),
  ("rulePODInterval", .rulePODInterval),
  ("ruleDigitDuration", .ruleDigitDuration),
  ("ruleNamedNumberDuration", .ruleNamedNumberDuration),
  ("ruleDurationHalf", .ruleDurationHalf),
  ("ruleIntervalConjDuration", .ruleIntervalConjDuration),
  ("ruleIntervalDuration", .ruleIntervalDuration),
  ("ruleDurationInterval", .ruleDurationInterval),
  ("ruleTimeDuration", .ruleTimeDuration)
]

def RuleId.ofName (name : String) : Option RuleId := (RuleId.all.find? (·.1 == name)).map (·.2)

def applyId (r : RuleId) (ts : Ts) (args : List Val) : R :=
  match r, args with
  | .ruleAbsorbOnTime, [.tok _, .time t] => pure (some (.time t))
  | .ruleAbsorbFromInterval, [.tok _, .interval f t] => pure (some (.interval f t))
  | .ruleNamedDOW, [.tok k] => ruleNamedDOW k
  | .ruleNamedMonth, [.tok k] => ruleNamedMonth k
  | .ruleNamedHour, [.tok k] => ruleNamedHour k
  | .ruleMidnight, [.tok _] => ruleMidnight
  | .ruleEarlyLatePOD, [.tok k, .time p] => ruleEarlyLatePOD k p
  | .rulePOD, [.tok k] => rulePOD k
  | .ruleDOM1, [.tok k] => ruleDOM1 k
  | .ruleMonthOrdinal, [.tok k] => ruleMonthOrdinal k
  | .ruleDOM2, [.tok k] => ruleDOM2 k
  | .ruleYear, [.tok k] => ruleYear ts k
  | .ruleToday, [.tok _] => ruleToday ts
  | .ruleNow, [.tok _] => ruleNow ts
  | .ruleTomorrow, [.tok _] => ruleTomorrow ts
  | .ruleAfterTomorrow, [.tok _] => ruleAfterTomorrow ts
  | .ruleYesterday, [.tok _] => ruleYesterday ts
  | .ruleBeforeYesterday, [.tok _] => ruleBeforeYesterday ts
  | .ruleEOM, [.tok _] => ruleEOM ts
  | .ruleEOY, [.tok _] => ruleEOY ts
  | .ruleDOMMonth, [.time a, .time b] => ruleDOMMonth a b
  | .ruleDOMMonth2, [.time a, .tok _, .time b] => ruleDOMMonth a b
  | .ruleMonthDOM, [.time a, .time b] => ruleMonthDOM a b
  | .ruleAtDOW, [.tok _, .time d] => ruleAtDOW ts d
  | .ruleNextDOW, [.tok _, .time d] => ruleNextDOW ts d
  | .ruleDOWNextWeek, [.time d, .tok _] => ruleNextDOW ts d
  | .ruleDOYYear, [.time a, .time b] => ruleDOYYear a b
  | .ruleDOWPOD, [.time a, .time b] => ruleDOWPOD a b
  | .ruleDOWDOM, [.time a, .time b] => ruleDOWDOM ts a b
  | .ruleDOWDate, [.time a, .time b] => ruleDOWDate a b
  | .ruleDateDOW, [.time a, .time b] => ruleDOWDate b a
  | .ruleLatentDOM, [.time a] => ruleLatentDOM ts a
  | .ruleLatentDOW, [.time a] => ruleLatentDOW ts a
  | .ruleLatentDOY, [.time a] => ruleLatentDOY ts a
  | .ruleLatentPOD, [.time a] => ruleLatentPOD ts a
  | .ruleDDMM, [.tok k] => ruleDDMM k
  | .ruleMMDD, [.tok k] => ruleDDMM k
  | .ruleDDMMYYYY, [.tok k] => ruleDDMMYYYY k
  | .ruleHHMMmilitary, [.tok k] => ruleHHMMmilitary ts k
  | .ruleHHMM, [.tok k] => ruleHHMM k
  | .ruleHHOClock, [.tok k] => ruleHHOClock k
  | .ruleQuarterBeforeHH, [.tok _, .time t] => ruleQuarterBeforeHH t
  | .ruleQuarterAfterHH, [.tok _, .time t] => ruleQuarterAfterHH t
  | .ruleHalfBeforeHH, [.tok _, .time t] => ruleHalfBeforeHH t
  | .ruleHalfAfterHH, [.tok _, .time t] => ruleHalfAfterHH t
  | .ruleTODPOD, [.time a, .time b] => ruleTODPOD a b
  | .rulePODTOD, [.time a, .time b] => ruleTODPOD b a
  | .ruleDateTOD, [.time a, .time b] => ruleDateTOD a b
  | .ruleTODDate, [.time a, .time b] => ruleDateTOD b a
  | .ruleDatePOD, [.time a, .time b] => ruleDatePOD a b
  | .rulePODDate, [.time a, .time b] => ruleDatePOD b a
  | .ruleBeforeTime, [.tok k, .time t] => ruleBeforeTime k t
  | .ruleAfterTime, [.tok k, .time t] => ruleAfterTime k t
  | .ruleDateDate, [.time a, .tok _, .time b] => ruleDateDate a b
  | .ruleDOMDate, [.time a, .tok _, .time b] => ruleDOMDate a b
  | .ruleDateDOM, [.time a, .tok _, .time b] => ruleDateDOM a b
  | .ruleDOYDate, [.time a, .tok _, .time b] => ruleDOYDate a b
  | .ruleDateTimeDateTime, [.time a, .tok _, .time b] => ruleDateTimeDateTime a b
  | .ruleTODTOD, [.time a, .tok _, .time b] => ruleTODTOD a b
  | .rulePODPOD, [.time a, .tok _, .time b] => rulePODPOD a b
  | .ruleDateInterval, [.time d, .interval f t] => ruleDateInterval d f t
  | .rulePODInterval, [.time p, .interval f t] => rulePODInterval p f t
  | .ruleDigitDuration, [.tok k] => ruleDigitDuration k
  | .ruleNamedNumberDuration, [.tok k] => ruleNamedNumberDuration k
  | .ruleDurationHalf, [.tok k] => ruleDurationHalf k
  | .ruleIntervalConjDuration, [.interval f t, .tok _, .duration n u] => ruleDurationInterval n u f t
  | .ruleIntervalDuration, [.interval f t, .duration n u] => ruleDurationInterval n u f t
  | .ruleDurationInterval, [.duration n u, .interval f t] => ruleDurationInterval n u f t
  | .ruleTimeDuration, [.time t, .tok _, .duration n u] => ruleTimeDuration t n u
  | _, _ => throw .unmodelled

def applyRaw (name : String) (ts : Ts) (args : List Val) : R :=
  match RuleId.ofName name with
  | some r => applyId r ts args
  | none => throw .unmodelled

/-- `_is_valid_calendar` of the rule wrapper -/
def timeCalOk (t : Time) : Bool :=
  match t.day, t.month with
  | some d, some m =>
    let y := t.year.getD 2000
    1 ≤ y && y ≤ 9999 && (if 1 ≤ m && m ≤ 12 then d ≤ dim y m else false)
  | _, _ => true
def valCalOk : Val → Bool
  | .time t => timeCalOk t
  | .interval f t => (f.map timeCalOk).getD true && (t.map timeCalOk).getD true
  | _ => true

/-- the registered wrapper: production, calendar check, span from first/last argument -/
def applyRule (name : String) (ts : Ts) (args : List Art) : Except PyErr (Option Art) := do
  match ← applyRaw name ts (args.map (·.v)) with
  | none => pure none
  | some v =>
    if !valCalOk v then pure none else
    match args.head?, args.getLast? with
    | some a, some b => pure (some { v := v, ms := a.ms, me := b.me })
    | _, _ => throw .indexError

/-! ### latent post-processing (`postprocess_latent.py`, repaired) -/
/-- hour and minute accepted by `relativedelta(hour=, minute=)` / `datetime.replace` -/
def inDay (h mi : Int) : Bool := 0 ≤ h && h ≤ 23 && 0 ≤ mi && mi ≤ 59

def latentTod (ts : Ts) (tod : Time) : Except PyErr Time := do
  let h ← need tod.hour
  let mi := tod.minute.getD 0         -- `tod.minute or 0`
  if !(inDay h mi) then throw .valueError
  let d := if h * 60 + mi ≤ ts.h * 60 + ts.mi then ts.date.addDays 1 else ts.date
  let d ← dateOk d
  pure { year := some d.y, month := some d.m, day := some d.d, hour := some h, minute := some mi }

def latentInterval (ts : Ts) (a b : Time) : Except PyErr Val := do
  let h1 ← need a.hour; let m1 := a.minute.getD 0
  let h2 ← need b.hour; let m2 := b.minute.getD 0
  if !(inDay h1 m1 && inDay h2 m2) then throw .valueError
  let now := ts.h * 60 + ts.mi
  let shift : Int := if h1 * 60 + m1 ≤ now then 1 else 0
  let dFrom := ts.date.addDays shift
  let dTo0 := ts.date.addDays shift
  let dTo := if h2 * 60 + m2 ≤ h1 * 60 + m1 then dTo0.addDays 1 else dTo0
  let dFrom ← dateOk dFrom
  let dTo ← dateOk dTo
  pure <| .interval (some { year := some dFrom.y, month := some dFrom.m, day := some dFrom.d, hour := some h1, minute := some m1 })
                    (some { year := some dTo.y, month := some dTo.m, day := some dTo.d, hour := some h2, minute := some m2 })

def applyLatent (ts : Ts) (a : Art) : Except PyErr Art := do
  match a.v with
  | .time t => if t.isTOD then pure { a with v := .time (← latentTod ts t) } else pure a
  | .interval (some f) (some t) =>
    if f.isTOD && t.isTOD then pure { a with v := (← latentInterval ts f t) } else pure a
  | _ => pure a

end QuickAdd
