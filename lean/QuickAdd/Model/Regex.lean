/-!
# Regex subset interpreter (import-free)

Backtracking matcher with Python/`regex` priority semantics (first alternative, greedy quantifiers),
capture groups, negative look-ahead, single-code-point negative look-behind and `\b`.
Code points are `Nat`; texts are `List Nat`.  Atoms are table driven: a literal is the list of code
points the `regex` library accepts for it (case-insensitively where `(?i)` is in force), classes are
range lists plus the generated `\d`, `\s` tables.  The three Unicode tables (`\d`, `\s`, `\w`) are
parameters (`Tabs`) so that the engine theorems hold for any tables.
-/
namespace QuickAdd

abbrev Ranges := List (Nat × Nat)

def inRanges (rs : Ranges) (x : Nat) : Bool := rs.any fun r => r.1 ≤ x && x ≤ r.2

structure Tabs where
  digit : Ranges
  space : Ranges
  word  : Ranges

inductive CI where
  | rng (lo hi : Nat) | digit | space
  deriving Repr, DecidableEq

inductive Rx where
  | eps
  | lit (alts : List Nat)            -- one code point out of `alts`
  | cls (neg : Bool) (items : List CI)
  | seq (a b : Rx) | alt (a b : Rx) | opt (a : Rx) | star (a : Rx) | plus (a : Rx)
  | grp (i : Nat) (a : Rx) | nla (a : Rx) | nlb (a : Rx) | wordb
  deriving Repr

def ciMatch (T : Tabs) (x : Nat) : CI → Bool
  | .rng lo hi => lo ≤ x && x ≤ hi
  | .digit => inRanges T.digit x
  | .space => inRanges T.space x

def clsMatch (T : Tabs) (neg : Bool) (items : List CI) (x : Nat) : Bool :=
  (items.any (ciMatch T x)) != neg

def isWord (T : Tabs) (x : Nat) : Bool := inRanges T.word x

structure St where
  prev : Option Nat
  rest : List Nat
  pos  : Nat
  deriving Repr

abbrev Caps := List (Nat × Nat × Nat)          -- group, start, end (most recent first)
abbrev K := St → Caps → Option (Nat × Caps)

def step (st : St) : Option (Nat × St) :=
  match st.rest with
  | [] => none
  | x :: xs => some (x, { prev := some x, rest := xs, pos := st.pos + 1 })

def mtc (T : Tabs) : Nat → Rx → St → Caps → K → Option (Nat × Caps)
  | 0, _, _, _, _ => none
  | f+1, r, st, cs, k =>
    match r with
    | .eps => k st cs
    | .lit alts => match step st with
        | some (x, st') => if alts.contains x then k st' cs else none
        | none => none
    | .cls neg items => match step st with
        | some (x, st') => if clsMatch T neg items x then k st' cs else none
        | none => none
    | .seq a b => mtc T f a st cs (fun st' cs' => mtc T f b st' cs' k)
    | .alt a b => match mtc T f a st cs k with | some e => some e | none => mtc T f b st cs k
    | .opt a => match mtc T f a st cs k with | some e => some e | none => k st cs
    | .star a =>
        match mtc T f a st cs (fun st' cs' => if st'.pos == st.pos then none else mtc T f (.star a) st' cs' k) with
        | some e => some e | none => k st cs
    | .plus a => mtc T f a st cs (fun st' cs' => mtc T f (.star a) st' cs' k)
    | .grp i a => mtc T f a st cs (fun st' cs' => k st' ((i, st.pos, st'.pos) :: cs'))
    | .nla a => match mtc T f a st cs (fun st' cs' => some (st'.pos, cs')) with
        | some _ => none | none => k st cs
    | .nlb a =>   -- single-code-point look-behind only
        match st.prev with
        | none => k st cs
        | some p => match mtc T f a { prev := none, rest := [p], pos := 0 } []
                            (fun st' cs' => if st'.rest.isEmpty then some (0, cs') else none) with
            | some _ => none | none => k st cs
    | .wordb =>
        let a := match st.prev with | some p => isWord T p | none => false
        let b := match st.rest with | x :: _ => isWord T x | [] => false
        if a != b then k st cs else none

def getCap (cs : Caps) (i : Nat) : Option (Nat × Nat) :=
  match cs.find? (fun c => c.1 == i) with | some (_, s, e) => some (s, e) | none => none

def rxSize : Rx → Nat
  | .eps => 1 | .lit _ => 1 | .cls _ _ => 1 | .wordb => 1
  | .seq a b => rxSize a + rxSize b + 1 | .alt a b => rxSize a + rxSize b + 1
  | .opt a => rxSize a + 1 | .star a => rxSize a + 2 | .plus a => rxSize a + 3
  | .grp _ a => rxSize a + 1 | .nla a => rxSize a + 1 | .nlb a => 2 * rxSize a + 1   -- the look-behind body runs on one code point

/-- fuel used by the model for one match attempt on a text of `n` remaining code points -/
def fuelFor (r : Rx) (n : Nat) : Nat := (rxSize r + 1) * (n + 2)

/-- priority match of `r` at the position described by `st` -/
def matchAt (T : Tabs) (r : Rx) (st : St) : Option (Nat × Caps) :=
  mtc T (fuelFor r st.rest.length) r st [] (fun st' cs' => some (st'.pos, cs'))

/-- overlapped finditer: at most one (priority) match per start offset; result (start, end, caps) -/
def findAllFrom (T : Tabs) (r : Rx) : Option Nat → List Nat → Nat → List (Nat × Nat × Caps)
  | prev, [], pos =>
    match matchAt T r { prev := prev, rest := [], pos := pos } with
    | some (e, cs) => [(pos, e, cs)] | none => []
  | prev, x :: xs, pos =>
    let here := match matchAt T r { prev := prev, rest := x :: xs, pos := pos } with
      | some (e, cs) => [(pos, e, cs)] | none => []
    here ++ findAllFrom T r (some x) xs (pos + 1)

def findAll (T : Tabs) (r : Rx) (s : List Nat) : List (Nat × Nat × Caps) := findAllFrom T r none s 0

/-- minimal number of code points any match consumes -/
def minLen : Rx → Nat
  | .eps => 0 | .lit _ => 1 | .cls _ _ => 1
  | .seq a b => minLen a + minLen b
  | .alt a b => min (minLen a) (minLen b)
  | .opt _ => 0 | .star _ => 0 | .plus a => minLen a
  | .grp _ a => minLen a | .nla _ => 0 | .nlb _ => 0 | .wordb => 0

end QuickAdd
