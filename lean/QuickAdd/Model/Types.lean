import QuickAdd.Model.Cal
import QuickAdd.Gen.Tables
/-!
# Values of `ctparse/types.py`: Time, Interval, Duration, RegexMatch; predicates, equality, text forms
Predicates and equality are defined over the *generated* attribute lists (`Gen.timeAttrs` …), exactly as
`_hasOnly` / `_hasAtLeast` / `__eq__` iterate over `_attrs`.
-/
namespace QuickAdd

inductive PyErr where
  | typeError | valueError | keyError | overflowError | attributeError | indexError | mathDomain | unmodelled
  deriving DecidableEq, Repr

deriving instance DecidableEq for Except

structure Time where
  year : Option Int := none
  month : Option Int := none
  day : Option Int := none
  hour : Option Int := none
  minute : Option Int := none
  dow : Option Int := none
  pod : Option String := none
  deriving DecidableEq, Repr

/-- is the attribute set (Python `getattr(self, a) is not None`); `none` for an unknown attribute name -/
def Time.isSet (t : Time) : String → Option Bool
  | "year" => some t.year.isSome | "month" => some t.month.isSome | "day" => some t.day.isSome
  | "hour" => some t.hour.isSome | "minute" => some t.minute.isSome | "DOW" => some t.dow.isSome
  | "POD" => some t.pod.isSome | _ => none

/-- `_hasOnly(*args)` over the generated `_attrs` -/
def Time.hasOnly (t : Time) (args : List String) : Bool :=
  Gen.timeAttrs.all fun a => match t.isSet a with
    | some b => if args.contains a then b else !b
    | none => false
/-- `_hasAtLeast(*args)` -/
def Time.hasAtLeast (t : Time) (args : List String) : Bool :=
  args.all fun a => (t.isSet a).getD false

def Time.isDOY (t : Time) := t.hasOnly ["month", "day"]
def Time.isDOM (t : Time) := t.hasOnly ["day"]
def Time.isDOW (t : Time) := t.hasOnly ["DOW"]
def Time.isMonth (t : Time) := t.hasOnly ["month"]
def Time.isPOD (t : Time) := t.hasOnly ["POD"]
def Time.isHour (t : Time) := t.hasOnly ["hour"]
def Time.isTOD (t : Time) := t.hasOnly ["hour"] || t.hasOnly ["hour", "minute"]
def Time.isDate (t : Time) := t.hasOnly ["year", "month", "day"]
def Time.isDateTime (t : Time) := t.hasOnly ["year", "month", "day", "hour"] || t.hasOnly ["year", "month", "day", "hour", "minute"]
def Time.isYear (t : Time) := t.hasOnly ["year"]
def Time.hasDate (t : Time) := t.hasAtLeast ["year", "month", "day"]
def Time.hasDOY (t : Time) := t.hasAtLeast ["month", "day"]
def Time.hasDOW (t : Time) := t.hasAtLeast ["DOW"]
def Time.hasTime (t : Time) := t.hasAtLeast ["hour"]
def Time.hasPOD (t : Time) := t.hasAtLeast ["POD"]

/-- attribute-wise equality over the generated list (`Artifact.__eq__` for two `Time`s) -/
def Time.fieldEq (a b : Time) : String → Bool
  | "year" => a.year == b.year | "month" => a.month == b.month | "day" => a.day == b.day
  | "hour" => a.hour == b.hour | "minute" => a.minute == b.minute | "DOW" => a.dow == b.dow
  | "POD" => a.pod == b.pod | _ => true
def Time.pyEq (a b : Time) : Bool := Gen.timeAttrs.all (Time.fieldEq a b)

inductive DUnit where
  | minutes | hours | days | nights | weeks | months
  deriving DecidableEq, Repr

def DUnit.name : DUnit → String
  | .minutes => "minutes" | .hours => "hours" | .days => "days" | .nights => "nights" | .weeks => "weeks" | .months => "months"
def DUnit.ofName : String → Option DUnit
  | "minutes" => some .minutes | "hours" => some .hours | "days" => some .days | "nights" => some .nights
  | "weeks" => some .weeks | "months" => some .months | _ => none

/-- a regex token: pattern id and the named groups that participated, with their text -/
structure Tok where
  id : Nat
  caps : List (String × List Nat)
  deriving DecidableEq, Repr

/-- `m.match.group(name)`: `none` = Python `None` -/
def Tok.group (k : Tok) (name : String) : Option (List Nat) :=
  match k.caps.find? (·.1 == name) with | some (_, t) => some t | none => none
/-- truthiness of `m.match.group(name)` -/
def Tok.has (k : Tok) (name : String) : Bool :=
  match k.group name with | some t => !t.isEmpty | none => false

inductive Val where
  | tok (k : Tok)
  | time (t : Time)
  | interval (f t : Option Time)
  | duration (n : Int) (u : DUnit)
  deriving DecidableEq, Repr

/-- an artifact: value + character span -/
structure Art where
  v : Val
  ms : Nat
  me : Nat
  deriving DecidableEq, Repr

def optTimeEq : Option Time → Option Time → Bool
  | none, none => true | some a, some b => a.pyEq b | _, _ => false

/-- `Artifact.__eq__`: same class and all `_attrs` equal (spans are attributes only for RegexMatch) -/
def Art.pyEq (a b : Art) : Bool :=
  match a.v, b.v with
  | .tok k1, .tok k2 => a.ms == b.ms && a.me == b.me && k1.id == k2.id
  | .time t1, .time t2 => t1.pyEq t2
  | .interval f1 t1, .interval f2 t2 =>
      Gen.intervalAttrs.all fun n => if n == "t_from" then optTimeEq f1 f2 else if n == "t_to" then optTimeEq t1 t2 else true
  | .duration n1 u1, .duration n2 u2 =>
      Gen.durationAttrs.all fun n =>
        if n == "value" then n1 == n2 else if n == "unit" then u1 == u2
        else if n == "mstart" then a.ms == b.ms else if n == "mend" then a.me == b.me else true
  | _, _ => false

/-- a canonical key such that `pyEq a b ↔ key a = key b` on the shipped attribute lists (hash model) -/
def Art.isVal (a : Art) : Bool := match a.v with | .tok _ => false | _ => true

/-! ### part-of-day table (`_mk_pod_hours`) -/
def podLookup (p : String) : Option (Int × Int) :=
  match Gen.podHours.find? (·.1 == p) with | some (_, a, b) => some (a, b) | none => none

/-- the table rebuilt by the recursion of `_mk_pod_hours` from the generated nested dictionary (depth-fuelled) -/
def mkPodAux : Nat → String → Gen.PodNode → Int × Int → List (String × Int × Int)
  | 0, _, _, _ => []
  | f+1, pod, .mk lo hi kids, t =>
    let here := (t.1 + lo, t.2 + hi)
    (pod, here.1, here.2) :: kids.flatMap fun (k, v) => mkPodAux f (k ++ pod) v here
def mkPodHours : List (String × Int × Int) := Gen.podNested.flatMap fun (k, v) => mkPodAux 8 k v (0, 0)

/-- hash model: the tuple of `_attrs` values (`Artifact.__hash__` hashes exactly this tuple) -/
def optS : Option Int → String | some x => toString x | none => "None"
def Time.attrVal (t : Time) : String → String
  | "year" => optS t.year | "month" => optS t.month | "day" => optS t.day | "hour" => optS t.hour
  | "minute" => optS t.minute | "DOW" => optS t.dow | "POD" => t.pod.getD "None" | _ => "?"
def Time.hashKey (t : Time) : List String := Gen.timeAttrs.map t.attrVal
def optTimeKey : Option Time → List String | some t => "T" :: t.hashKey | none => ["None"]
def Art.hashKey (a : Art) : List String :=
  match a.v with
  | .tok k => [toString a.ms, toString a.me, toString k.id]
  | .time t => t.hashKey
  | .interval f t => Gen.intervalAttrs.flatMap fun n => if n == "t_from" then optTimeKey f else if n == "t_to" then optTimeKey t else ["?"]
  | .duration n u => Gen.durationAttrs.map fun x =>
      if x == "value" then toString n else if x == "unit" then u.name else if x == "mstart" then toString a.ms else if x == "mend" then toString a.me else "?"

/-! ### accessors -/
def Time.start (t : Time) : Except PyErr Time := do
  let hour ← (if t.hour.isNone && t.hasPOD then
      match t.pod with
      | some p => match podLookup p with | some (a, _) => pure a | none => throw PyErr.keyError
      | none => throw PyErr.keyError
    else pure (t.hour.getD 0))      -- `self.hour or 0`
  pure { year := t.year, month := t.month, day := t.day, hour := some hour,
         minute := some (match t.minute with | some m => m | none => 0) }

def Time.end_ (t : Time) : Except PyErr Time := do
  let hour ← (if t.hour.isNone && t.hasPOD then
      match t.pod with
      | some p => match podLookup p with | some (_, b) => pure b | none => throw PyErr.keyError
      | none => throw PyErr.keyError
    else pure (match t.hour with | some h => h | none => 23))
  pure { year := t.year, month := t.month, day := t.day, hour := some hour,
         minute := some (match t.minute with | some m => m | none => 59) }

/-- `Time.dt`: the start as a datetime; `ValueError` when under-specified or not a calendar date -/
def Time.dt (t : Time) : Except PyErr Ts := do
  let s ← t.start
  match s.year, s.month, s.day with
  | some y, some m, some d =>
    let date : Date := ⟨y, m, d⟩
    let h := s.hour.getD 0
    let mi := s.minute.getD 0
    if date.valid && date.inRange && 0 ≤ h && h ≤ 23 && 0 ≤ mi && mi ≤ 59 then pure ⟨date, h, mi⟩
    else throw PyErr.valueError
  | _, _, _ => throw PyErr.valueError

/-! ### text forms -/
def padNat (w : Nat) (n : Nat) : String :=
  let s := toString n
  String.ofList (List.replicate (w - s.length) '0') ++ s
/-- Python `"{:0wd}".format(n)` (sign, then zero padding to width `w`) -/
def fmtInt (w : Nat) (n : Int) : String :=
  if n < 0 then "-" ++ padNat (w - 1) n.natAbs else padNat w n.natAbs
def optFmt (w : Nat) : Option Int → String | some n => fmtInt w n | none => "X"

def Time.str (t : Time) : String :=
  s!"{optFmt 4 t.year}-{optFmt 2 t.month}-{optFmt 2 t.day} {optFmt 2 t.hour}:{optFmt 2 t.minute} ({optFmt 1 t.dow}/{t.pod.getD "X"})"

def optTimeStr : Option Time → String | some t => t.str | none => "None"

def Val.str : Val → String
  | .tok k => s!"{k.id}:"
  | .time t => t.str
  | .interval f t => s!"{optTimeStr f} - {optTimeStr t}"
  | .duration n u => s!"{n} {u.name}"

def Val.cls : Val → String
  | .tok _ => "RegexMatch" | .time _ => "Time" | .interval _ _ => "Interval" | .duration _ _ => "Duration"

def Val.nbStr (v : Val) : String := s!"{v.cls}[]\{{v.str}}"
def Art.repr (a : Art) : String := s!"{a.v.cls}[{a.ms}-{a.me}]\{{a.v.str}}"

end QuickAdd
