/-!
# Count vectorizer + multinomial naive Bayes (`count_vectorizer.py`, `nb_estimator.py`, `pipeline.py`, `nb_scorer.py`)
Exact counts; logarithms stay symbolic: a quantity is a *log form* `Σ cᵢ · log aᵢ` (`LogForm`), evaluated over ℝ in the
theorems and with IEEE doubles by the harness.  The index machinery of the Python (vocabulary indices, sparse rows,
the vocabulary size smuggled through the first row) is modelled as it is.
-/
namespace QuickAdd.NB

inductive NBErr where
  | indexError | valueError | zeroDivision | mathDomain
  deriving DecidableEq, Repr

/-- all `n`-grams of a document, joined by a blank, in order of position -/
def gramsN (n : Nat) (doc : List String) : List String :=
  if n = 0 ∨ doc.length < n then [] else
  (List.range (doc.length - n + 1)).map fun i => " ".intercalate ((doc.drop i).take n)

/-- `_create_ngrams` with `ngram_range = (1, 3)`: unigrams, then bigrams, then trigrams -/
def ngrams (doc : List String) : List String := doc ++ gramsN 2 doc ++ gramsN 3 doc

/-- increment in a dict that keeps insertion order -/
def bump (g : String) : List (String × Nat) → List (String × Nat)
  | [] => [(g, 1)]
  | (h, c) :: t => if h = g then (h, c + 1) :: t else (h, c) :: bump g t

/-- `_get_feature_counts` for one document -/
def featureCounts (doc : List String) : List (String × Nat) := (ngrams doc).foldl (fun acc g => bump g acc) []

def insertSorted (g : String) : List String → List String
  | [] => [g]
  | h :: t => if g < h then g :: h :: t else if g = h then h :: t else h :: insertSorted g t

/-- `_build_vocabulary`: the sorted set of all features; index = position -/
def buildVocab (cm : List (List (String × Nat))) : List String :=
  cm.foldl (fun acc row => row.foldl (fun acc2 p => insertSorted p.1 acc2) acc) []

def setKey (k v : Nat) : List (Nat × Nat) → List (Nat × Nat)
  | [] => [(k, v)]
  | (k', v') :: t => if k' = k then (k, v) :: t else (k', v') :: setKey k v t
def getKey (k : Nat) (row : List (Nat × Nat)) : Nat :=
  match row.find? (·.1 == k) with | some (_, v) => v | none => 0

/-- one sparse row `{feature_index: count}`; unknown features are ignored -/
def featureRow (vocab : List String) (cd : List (String × Nat)) : List (Nat × Nat) :=
  cd.foldl (fun acc (w, c) => match vocab.idxOf? w with | some i => setKey i c acc | none => acc) []

/-- `_create_feature_matrix`: rows, then `rows[0][len_vocab-1] = rows[0][len_vocab-1]` (a defaultdict read creates the key).
    `rows[0]` on an empty batch is an `IndexError`; with an empty vocabulary the key is `-1` (kept as a flag). -/
def featureMatrix (vocab : List String) (cm : List (List (String × Nat))) : Except NBErr (List (List (Nat × Nat)) × Bool) :=
  match cm.map (featureRow vocab) with
  | [] => .error .indexError
  | r0 :: rest =>
    if vocab.length = 0 then .ok (r0 :: rest, true)      -- key −1 in the first row
    else
      let k := vocab.length - 1
      .ok ((if r0.any (·.1 == k) then r0 else r0 ++ [(k, 0)]) :: rest, false)

structure Fitted where
  vocab : List String
  nNeg : Nat
  nPos : Nat
  /-- smoothed counts per vocabulary index (α = 1): count + 1 -/
  neg : List Nat
  pos : List Nat
  deriving Repr

def addAt (i c : Nat) : List Nat → List Nat
  | [] => []
  | h :: t => match i with | 0 => (h + c) :: t | i+1 => h :: addAt i c t

/-- `fit` (α = 1).  `vocabulary_len = max(X[0].keys()) + 1`. Labels: `true` = +1. -/
def fit (docs : List (List String)) (labels : List Bool) : Except NBErr Fitted := do
  let cm := docs.map featureCounts
  let vocab := buildVocab cm
  let (rows, negKey) ← featureMatrix vocab cm
  let r0 := rows.headD []
  let vlen := if negKey then (r0.foldl (fun m p => max m (p.1 + 1)) 0)   -- max(keys)+1 with key −1 present: max(−1, …)+1
              else r0.foldl (fun m p => max m (p.1 + 1)) 0
  let init := List.replicate vlen 1
  let step (acc : List Nat × List Nat) (rl : List (Nat × Nat) × Bool) : List Nat × List Nat :=
    rl.1.foldl (fun a (i, c) => if rl.2 then (a.1, addAt i c a.2) else (addAt i c a.1, a.2)) acc
  let (neg, pos) := (rows.zip labels).foldl step (init, init)
  let nNeg := (labels.filter (· == false)).length
  let nPos := labels.length - nNeg
  if nNeg + nPos = 0 then throw .zeroDivision
  if nNeg = 0 ∨ nPos = 0 then throw .mathDomain          -- log(0) for the class prior
  if negKey then throw .indexError                       -- empty vocabulary: `token_counts[-1] += 0` on an empty list
  pure { vocab := vocab, nNeg := nNeg, nPos := nPos, neg := neg, pos := pos }

/-- a real number of the shape `Σ c · log (num/den)` -/
abbrev LogForm := List (Int × Nat × Nat)

/-- `transform` of one document + `predict_log_probability`: (negative, positive) joint log-likelihoods as log forms -/
def joint (m : Fitted) (doc : List String) : Except NBErr (LogForm × LogForm) := do
  if m.vocab.isEmpty then throw .valueError       -- "no vocabulary - vectorizer not fitted?"
  let (rows, _) ← featureMatrix m.vocab [featureCounts doc]
  let row := rows.headD []
  let sNeg := m.neg.foldl (· + ·) 0
  let sPos := m.pos.foldl (· + ·) 0
  let tot := m.nNeg + m.nPos
  let negF : LogForm := (1, m.nNeg, tot) :: row.map fun (i, c) => ((c : Int), m.neg.getD i 0, sNeg)
  let posF : LogForm := (1, m.nPos, tot) :: row.map fun (i, c) => ((c : Int), m.pos.getD i 0, sPos)
  pure (negF, posF)

/-- log-odds `pos − neg` as one log form -/
def logOdds (m : Fitted) (doc : List String) : Except NBErr LogForm := do
  let (n, p) ← joint m doc
  pure (p ++ n.map fun (c, a, b) => (-c, a, b))

/-- `NaiveBayesScorer.score`: log-odds + log(covered / len(text)) -/
def score (m : Fitted) (trace : List String) (covered textLen : Nat) : Except NBErr LogForm := do
  pure ((← logOdds m trace) ++ [(1, covered, textLen)])
/-- `score_final`: log-odds + 1000 · log(len(prod) / len(text)) -/
def scoreFinal (m : Fitted) (trace : List String) (prodLen textLen : Nat) : Except NBErr LogForm := do
  pure ((← logOdds m trace) ++ [(1000, prodLen, textLen)])

/-! ### training-set construction (`corpus.py`) -/
/-- one sample per non-empty prefix of the production trace, all with the candidate's label -/
def prefixSamples (trace : List String) (label : Bool) : List (List String × Bool) :=
  (List.range trace.length).map fun i => (trace.take (i + 1), label)

end QuickAdd.NB
