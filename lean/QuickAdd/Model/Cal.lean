/-!
# Proleptic Gregorian calendar over `Int` (import-free)

Exactly the `datetime` / `dateutil.relativedelta` / `rrule` operations the rules use.
Reference times are modelled to the minute: every comparison the rules make is between the reference
time and a copy of it with some fields replaced, so seconds and microseconds cancel (validated by the
`rule` correspondence with sub-minute reference times).
-/
namespace QuickAdd

def isLeap (y : Int) : Bool := (y % 4 == 0 && y % 100 != 0) || y % 400 == 0

/-- days in month -/
def dim (y : Int) (m : Int) : Int :=
  if m == 2 then (if isLeap y then 29 else 28)
  else if m == 4 || m == 6 || m == 9 || m == 11 then 30 else 31

/-- days before year `y` (Python `_days_before_year`) -/
def dby (y : Int) : Int := (y-1)*365 + (y-1)/4 - (y-1)/100 + (y-1)/400

/-- days before month `m` in a non-leap year -/
def dbm0 (m : Int) : Int :=
  if m ≤ 1 then 0 else if m == 2 then 31 else if m == 3 then 59 else if m == 4 then 90 else if m == 5 then 120
  else if m == 6 then 151 else if m == 7 then 181 else if m == 8 then 212 else if m == 9 then 243
  else if m == 10 then 273 else if m == 11 then 304 else 334

def dbm (y m : Int) : Int := dbm0 m + (if m > 2 && isLeap y then 1 else 0)

structure Date where
  y : Int
  m : Int
  d : Int
  deriving DecidableEq, Repr

def Date.Valid (x : Date) : Prop := 1 ≤ x.m ∧ x.m ≤ 12 ∧ 1 ≤ x.d ∧ x.d ≤ dim x.y x.m
def Date.valid (x : Date) : Bool := 1 ≤ x.m && x.m ≤ 12 && 1 ≤ x.d && x.d ≤ dim x.y x.m
/-- representable by `datetime` -/
def Date.inRange (x : Date) : Bool := 1 ≤ x.y && x.y ≤ 9999

/-- Python `date.toordinal` -/
def Date.ord (x : Date) : Int := dby x.y + dbm x.y x.m + x.d
/-- Python `date.weekday` (Monday = 0) -/
def Date.weekday (x : Date) : Int := (x.ord + 6) % 7

def Date.next (x : Date) : Date :=
  if x.d < dim x.y x.m then { x with d := x.d + 1 } else if x.m < 12 then ⟨x.y, x.m + 1, 1⟩ else ⟨x.y + 1, 1, 1⟩
def Date.prev (x : Date) : Date :=
  if 1 < x.d then { x with d := x.d - 1 } else if 1 < x.m then ⟨x.y, x.m - 1, dim x.y (x.m - 1)⟩ else ⟨x.y - 1, 12, 31⟩

/-- step-by-step day arithmetic (specification; `ord (addDaysN x n) = ord x + n`) -/
def Date.addDaysN (x : Date) : Nat → Date
  | 0 => x
  | n+1 => (x.addDaysN n).next
def Date.subDaysN (x : Date) : Nat → Date
  | 0 => x
  | n+1 => (x.subDaysN n).prev

/-- month of the `n`-th day (1-based) of year `y`: scan the twelve months -/
def monthOfYearDay (y : Int) (n : Int) : Nat → Int → Date
  | 0, m => ⟨y, m, n⟩
  | f+1, m => if n ≤ dim y m || m ≥ 12 then ⟨y, m, n⟩ else monthOfYearDay y (n - dim y m) f (m + 1)

/-- year search: move `y` until `dby y < n ≤ dby (y+1)` -/
def yearOfOrd (n : Int) : Nat → Int → Int
  | 0, y => y
  | f+1, y => if n ≤ dby y then yearOfOrd n f (y - 1) else if n > dby (y + 1) then yearOfOrd n f (y + 1) else y

/-- Python `date.fromordinal` (search formulation; tied to the closed form by correspondence) -/
def maxOrd : Int := 3652059        -- date.max.toordinal()
/-- year/month search (fast path) -/
def Date.ofOrdFast (n : Int) : Date :=
  let y0 := n / 366 + 1
  let y := yearOfOrd n ((n.natAbs / 100000) + 8) y0
  monthOfYearDay y (n - dby y) 12 1

/-- Python `date.fromordinal`.  The fast search result is *checked* (`valid ∧ ord = n`); should the check ever
    fail the slow day-stepping definition is used, so the specification `ofOrd_spec` holds unconditionally. -/
def Date.ofOrd (n : Int) : Date :=
  if n < 1 then ⟨0, 12, 31⟩ else if n > maxOrd then ⟨10000, 1, 1⟩ else   -- outside `datetime`'s range
  let c := Date.ofOrdFast n
  if c.valid && c.ord == n then c else (⟨1, 1, 1⟩ : Date).addDaysN (n - 1).toNat

def Date.addDays (x : Date) (n : Int) : Date := Date.ofOrd (x.ord + n)

/-- `relativedelta(months=n)` part: month arithmetic with the day clipped to the month length -/
def Date.addMonthsClip (x : Date) (n : Int) : Date :=
  let mi := 12 * x.y + (x.m - 1) + n
  let y := mi / 12
  let m := mi % 12 + 1
  ⟨y, m, min x.d (dim y m)⟩

/-- `relativedelta(weekday=w)`: the first `w`-day on or after `x` -/
def Date.toWeekday (x : Date) (w : Int) : Date := x.addDays ((7 - x.weekday + w) % 7)

/-- reference time, to the minute -/
structure Ts where
  date : Date
  h : Int
  mi : Int
  deriving DecidableEq, Repr

def Ts.Valid (t : Ts) : Prop := t.date.Valid ∧ 0 ≤ t.h ∧ t.h ≤ 23 ∧ 0 ≤ t.mi ∧ t.mi ≤ 59

/-- minutes since ordinal 0, for comparisons and hour/minute arithmetic -/
def Ts.minutes (t : Ts) : Int := (t.date.ord * 24 + t.h) * 60 + t.mi
def Ts.ofMinutes (n : Int) : Ts :=
  let dayMin := n % 1440
  ⟨Date.ofOrd (n / 1440), dayMin / 60, dayMin % 60⟩
def Ts.addMinutes (t : Ts) (n : Int) : Ts := Ts.ofMinutes (t.minutes + n)

/-- `rrule(MONTHLY, dtstart=ts, byweekday=w, bymonthday=d, count=1)[0]`:
    first month (from the reference month on) in which day `d` exists, is a `w`-day and is not before the
    reference date; `none` = no solution up to year 9999 (`IndexError`). -/
def rruleMonthly (start : Date) (w d : Int) : Nat → Int → Option Date
  | 0, _ => none
  | f+1, mi =>
    let y := mi / 12
    let m := mi % 12 + 1
    if y > 9999 then none
    else
      let c : Date := ⟨y, m, d⟩
      if d ≤ dim y m && c.weekday == w && start.ord ≤ c.ord then some c
      else rruleMonthly start w d f (mi + 1)

end QuickAdd
