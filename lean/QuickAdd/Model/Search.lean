import QuickAdd.Model.Codec
import QuickAdd.Model.Pre
import QuickAdd.Gen.RegexTable
/-!
# The search of `ctparse/ctparse.py` and `partial_parse.py` (import-free)
`matchRegex`, `regexStack`, the rule pre-filter (`_seq_match`), `_match_rule`, and the worklist loop, generic
in the score type and its strict order; deadline checks are counted and an oracle says which check fails.
-/
namespace QuickAdd
open Gen

/-! ## tokens -/
def rstripLen (s : List Nat) : Nat := (s.reverse.dropWhile isPySpace).length

def insSorted (lt : α → α → Bool) (x : α) : List α → List α
  | [] => [x]
  | y :: ys => if lt x y then x :: y :: ys else y :: insSorted lt x ys
/-- stable insertion sort -/
def sortBy (lt : α → α → Bool) (l : List α) : List α := l.foldl (fun acc x => insSorted lt x acc) []

def tokOfMatch (p : Pat) (txt : List Nat) (m : Nat × Nat × Caps) : Art :=
  let (s, e, cs) := m
  let caps := p.names.filterMap fun (n, i) =>
    if i == p.self then none else
    match getCap cs i with
    | some (a, b) => some (n, slice txt a b)
    | none => none
  let text := slice txt s e
  { v := .tok { id := p.id, caps := sortBy (fun a b => a.1 < b.1) caps }, ms := s, me := s + rstripLen text }

def artKeyLt (a b : Art) : Bool :=
  let ia := match a.v with | .tok k => k.id | _ => 0
  let ib := match b.v with | .tok k => k.id | _ => 0
  a.ms < b.ms || (a.ms == b.ms && (a.me < b.me || (a.me == b.me && ia < ib)))

/-- the unstripped text of a token's match (`m.match.captures()[0]`): re-run the pattern at its start -/
def rawMatchText (txt : List Nat) (a : Art) : List Nat :=
  match a.v with
  | .tok k =>
    (match table.find? (·.id == k.id) with
     | some p =>
       let pre := txt.take a.ms
       (match matchAt rxTabs p.rx { prev := pre.getLast?, rest := txt.drop a.ms, pos := a.ms } with
        | some (e, _) => slice txt a.ms e
        | none => slice txt a.ms a.me)
     | none => slice txt a.ms a.me)
  | _ => []

/-- `_match_regex`: all overlapped matches of all patterns, sorted by (start, end) (ties by id: canonical) -/
def matchRegex (txt : List Nat) : List Art :=
  sortBy artKeyLt (table.flatMap fun p => (findAll rxTabs p.rx txt).map (tokOfMatch p txt))

/-! ## `_regex_stack` -/
/-- `get_m_dist`: 1 iff no overlap and only `\s` between the two matches -/
def adjacent (txt : List Nat) (a b : Art) : Bool :=
  if b.ms < a.me then false else (slice txt a.me b.ms).all (inRanges rxSpace)

/-- DFS with an explicit stack of index paths (reversed paths), same visiting order as the Python.
    Returns the maximal sequences and the number of loop iterations (= deadline checks). -/
def regexStackGo (txt : List Nat) (toks : Array Art) : Nat → List (List Nat) → List (List Nat) → Nat → List (List Nat) × Nat
  | 0, _, acc, n => (acc.reverse, n)
  | _, [], acc, n => (acc.reverse, n)
  | f+1, s :: stack, acc, n =>
    match s with
    | [] => regexStackGo txt toks f stack acc (n + 1)
    | i :: _ =>
      let succs := (List.range toks.size).filter fun j =>
        i < j && (match toks[i]?, toks[j]? with | some a, some b => adjacent txt a b | _, _ => false)
      if succs.isEmpty then regexStackGo txt toks f stack (s.reverse :: acc) (n + 1)
      else
        -- pushed in increasing j, popped from the end: largest j first
        regexStackGo txt toks f ((succs.map fun j => j :: s).reverse ++ stack) acc (n + 1)

def hasPred (txt : List Nat) (toks : Array Art) (i : Nat) : Bool :=
  (List.range i).any fun k => match toks[k]?, toks[i]? with | some a, some b => adjacent txt a b | _, _ => false

def regexStackIdx (txt : List Nat) (toks : List Art) (fuel : Nat) : List (List Nat) × Nat :=
  let arr := toks.toArray
  let starts := (List.range arr.size).filter fun i => !hasPred txt arr i
  -- `[(i,) for i in reversed(range(n)) if …]` popped from the end: smallest i first
  regexStackGo txt arr fuel (starts.map fun i => [i]) [] 0

def regexStack (txt : List Nat) (toks : List Art) (fuel : Nat) : List (List Art) × Nat :=
  let (paths, n) := regexStackIdx txt toks fuel
  (paths.map fun p => p.filterMap fun i => toks[i]?, n)

/-! ## predicates, `_match_rule`, pre-filter -/
def predHolds (p : Pred) (a : Art) : Bool :=
  match p, a.v with
  | .regex id, .tok k => k.id == id
  | .regex _, _ => false
  | .dim "Time", .time _ => true
  | .dim "Interval", .interval _ _ => true
  | .dim "Duration", .duration _ _ => true
  | .dim _, _ => false
  | .attr n, .time t =>
    (match n with
     | "isDOY" => t.isDOY | "isDOM" => t.isDOM | "isDOW" => t.isDOW | "isMonth" => t.isMonth | "isPOD" => t.isPOD
     | "isHour" => t.isHour | "isTOD" => t.isTOD | "isDate" => t.isDate | "isDateTime" => t.isDateTime | "isYear" => t.isYear
     | "hasDate" => t.hasDate | "hasDOY" => t.hasDOY | "hasDOW" => t.hasDOW | "hasTime" => t.hasTime | "hasPOD" => t.hasPOD
     | _ => false)
  | .attr n, .interval f t =>
    (match n, f, t with
     | "isTimeInterval", some a, some b => a.isTOD && b.isTOD
     | "isDateInterval", some a, some b => a.isDate && b.isDate
     | _, _, _ => false)
  | .attr _, _ => false
  | .other _, _ => false

def isRegexPred : Pred → Bool | .regex _ => true | _ => false

/-- `_match_rule`: start offsets at which the whole pattern matches a contiguous window -/
def matchRule (seq : List Art) (pat : List Pred) : List Nat :=
  if pat.isEmpty then [] else
  (List.range seq.length).filter fun i =>
    let w := (seq.drop i).take pat.length
    w.length == pat.length && (List.zipWith predHolds pat w).all id

/-- does `_seq_match(seq, pat)` yield anything (the rule pre-filter of `from_regex_matches`) -/
def seqMatchEx : Nat → List Art → List Pred → Bool
  | 0, _, _ => false
  | f+1, seq, pat =>
    if pat.isEmpty then true
    else if seq.isEmpty then false
    else match pat.getLast? with
      | none => true
      | some pl =>
        if !isRegexPred pl then seqMatchEx f seq.dropLast pat.dropLast
        else if pat.length > seq.length then false
        else match pat with
          | [] => true
          | p1 :: prest =>
            if !isRegexPred p1 then seqMatchEx f (seq.drop 1) prest
            else (List.range seq.length).any fun i =>
              (match seq[i]? with | some s => predHolds p1 s | none => false) && seqMatchEx f (seq.drop (i + 1)) prest

def filterRules (seq : List Art) : List (String × List Pred) :=
  ruleSigs.filter fun r => seqMatchEx (r.2.length + 2) seq r.2

/-! ## the worklist loop -/
structure E (α S : Type) where
  prod  : List α
  trace : List String
  cov   : Nat
  score : S
  rules : List (String × List Pred)      -- `applicable_rules`, inherited from the initial element

structure Cfg (α S : Type) where
  lt     : S → S → Bool
  /-- successors of a production: prod, trace, covered chars — in rule order, then window order -/
  expand : List (String × List Pred) → List α → List String → Except PyErr (List (List α × List String × Nat))
  scorer : List α → List String → Nat → S
  final  : List α → List String → α → S
  isVal  : α → Bool
  keyEq  : α → α → Bool
  depth  : Nat

variable {α S : Type}

/-- `PartialParse.__lt__` -/
def elt (lt : S → S → Bool) (a b : E α S) : Bool := a.cov < b.cov || (a.cov == b.cov && lt a.score b.score)
/-- stable insertion (before the first element that is strictly greater) -/
def ins (lt : S → S → Bool) (x : E α S) : List (E α S) → List (E α S)
  | [] => [x]
  | y :: ys => if elt lt x y then x :: y :: ys else y :: ins lt x ys
def sortE (lt : S → S → Bool) (l : List (E α S)) : List (E α S) := l.foldl (fun acc x => ins lt x acc) []

def listEqBy (eq : α → α → Bool) : List α → List α → Bool
  | [], [] => true
  | a :: as, b :: bs => eq a b && listEqBy eq as bs
  | _, _ => false

def lookupBy {K V : Type} (eq : K → K → Bool) (k : K) : List (K × V) → Option V
  | [] => none
  | (k', v) :: t => if eq k k' then some v else lookupBy eq k t

/-- keep the last `d` elements; `d = 0` keeps everything (`stack[-0:]`) -/
def trunc {β : Type} (d : Nat) (l : List β) : List β := if d = 0 then l else l.drop (l.length - d)

/-- push the successors that the dedup table lets through -/
def pushNew (c : Cfg α S) (rules : List (String × List Pred)) :
    List (List α × List String × Nat) → List (List α × S) → List (E α S) × List (List α × S)
  | [], seen => ([], seen)
  | (p, t, n) :: rest, seen =>
    let sc := c.scorer p t n
    let ok := match lookupBy (listEqBy c.keyEq) p seen with | some old => c.lt old sc | none => true
    if ok then
      let r := pushNew c rules rest ((p, sc) :: seen)
      ({ prod := p, trace := t, cov := n, score := sc, rules := rules } :: r.1, r.2)
    else pushNew c rules rest seen

/-- emit the values of a production that produced nothing new -/
def emit (c : Cfg α S) (pr : List α) (tr : List String) : List α → List (α × S) → List (α × List String × S) × List (α × S)
  | [], em => ([], em)
  | x :: xs, em =>
    if c.isVal x then
      let fs := c.final pr tr x
      let ok := match lookupBy c.keyEq x em with | some old => c.lt old fs | none => true
      if ok then
        let r := emit c pr tr xs ((x, fs) :: em)
        ((x, tr, fs) :: r.1, r.2)
      else emit c pr tr xs em
    else emit c pr tr xs em

/-- main loop. `budget`: number of deadline checks that still succeed (`none` = no deadline).
    Result: the emissions, and the exception that ended the stream, if any (fuel exhaustion = `unmodelled`). -/
def run (c : Cfg α S) : Nat → Option Nat → List (E α S) → List (List α × S) → List (α × S) →
    List (α × List String × S) × Option PyErr
  | 0, _, _, _, _ => ([], some .unmodelled)
  | f+1, budget, stack, seen, em =>
    match stack.reverse with
    | [] => ([], none)
    | s :: restRev =>
      if budget == some 0 then ([], none) else       -- `t_fun()` raised: caught, the generator ends
      let budget' := budget.map (· - 1)
      let rest := restRev.reverse
      match c.expand s.rules s.prod s.trace with
      | .error e => ([], some e)
      | .ok succs =>
        let r := pushNew c s.rules succs seen
        if r.1.isEmpty then
          let o := emit c s.prod s.trace s.prod em
          let t := run c f budget' rest r.2 o.2
          (o.1 ++ t.1, t.2)
        else
          run c f budget' (trunc c.depth (sortE c.lt (rest ++ r.1))) r.2 em

/-! ## concrete instantiation on artifacts -/
def coverOf (p : List Art) : Nat :=
  match p.head?, p.getLast? with | some a, some b => b.me - a.ms | _, _ => 0

def traceName (a : Art) : String := match a.v with | .tok k => toString k.id | _ => ""

/-- one rule application at window offset `i`: the successor production, its trace and coverage -/
def applyAt (ts : Ts) (name : String) (pat : List Pred) (prod : List Art) (trace : List String) (i : Nat) :
    Except PyErr (Option (List Art × List String × Nat)) := do
  match ← applyRule name ts ((prod.drop i).take pat.length) with
  | some x =>
    let np := prod.take i ++ x :: prod.drop (i + pat.length)
    pure (some (np, trace ++ [name], coverOf np))
  | none => pure none

/-- left-to-right collection of optional results; the first exception aborts -/
def foldOpt {β γ : Type} (g : β → Except PyErr (Option γ)) : List β → List γ → Except PyErr (List γ)
  | [], acc => .ok acc
  | i :: is, acc => match g i with
    | .error e => .error e
    | .ok (some s) => foldOpt g is (acc ++ [s])
    | .ok none => foldOpt g is acc

/-- left-to-right concatenation of list results; the first exception aborts -/
def foldAppend {β γ : Type} (g : β → Except PyErr (List γ)) : List β → List γ → Except PyErr (List γ)
  | [], acc => .ok acc
  | r :: rs, acc => match g r with
    | .error e => .error e
    | .ok outs => foldAppend g rs (acc ++ outs)

/-- all applications of one rule, in window order -/
def expandRule (ts : Ts) (name : String) (pat : List Pred) (prod : List Art) (trace : List String) :
    Except PyErr (List (List Art × List String × Nat)) :=
  foldOpt (applyAt ts name pat prod trace) (matchRule prod pat) []

/-- all rule applications (registry order, then window order); an exception aborts the whole search -/
def expandArts (ts : Ts) (rules : List (String × List Pred)) (prod : List Art) (trace : List String) :
    Except PyErr (List (List Art × List String × Nat)) :=
  foldAppend (fun r => expandRule ts r.1 r.2 prod trace) rules []

structure Scorer (S : Type) where
  lt : S → S → Bool
  score : List Nat → List Art → List String → Nat → S       -- text, prod, trace, covered
  final : List Nat → List Art → List String → Art → S

structure Opts where
  relMatchLenNum : Nat := 1      -- relative_match_len as a fraction
  relMatchLenDen : Nat := 1
  depth : Nat := 10
  latent : Bool := true
  deadline : Option Nat := none   -- index (0-based) of the first deadline check that fails

structure Cand (S : Type) where
  res : Art
  trace : List String
  score : S

/-- enumeration of the candidate sequences, initial scoring, ordering, `relative_match_len` filter and depth cut;
    second component: number of deadline checks made before the main loop (one per DFS iteration, one per sequence) -/
def initialStack (sc : Scorer S) (depth num den : Nat) (txt : List Nat) (fuel : Nat) : List (E Art S) × Nat :=
  let toks := matchRegex txt
  let r := regexStack txt toks fuel
  let stack0 : List (E Art S) := r.1.map fun s =>
    { prod := s, trace := s.map traceName, cov := coverOf s, score := sc.score txt s (s.map traceName) (coverOf s), rules := filterRules s }
  let sorted := sortE sc.lt stack0
  let top := match sorted.getLast? with | some e => e.cov | none => 0
  let kept := sorted.filter fun e => e.cov * den ≥ top * num
  (trunc depth kept, r.2 + r.1.length)

def mkCfg (sc : Scorer S) (ts : Ts) (depth : Nat) (txt : List Nat) : Cfg Art S :=
  { lt := sc.lt
    expand := fun rules p t => expandArts ts rules p t
    scorer := fun p t n => sc.score txt p t n
    final := fun p t x => sc.final txt p t x
    isVal := Art.isVal
    keyEq := Art.pyEq
    depth := depth }

/-- does the deadline (index of the first failing check) fall before the main loop, after `pre` checks -/
def expiredAt : Option Nat → Nat → Bool
  | some k, pre => decide (k < pre)
  | none, _ => false

def toCand (o : Art × List String × S) : Cand S := { res := o.1, trace := o.2.1, score := o.2.2 }

/-- `_ctparse` after label removal, on the normalised label-free text: candidates, the exception that ended the
    stream (if any), and the productions of the initial stack (for the subject) -/
def searchCore (sc : Scorer S) (ts : Ts) (o : Opts) (txt : List Nat) (fuel : Nat) :
    (List (Cand S) × Option PyErr) × List (List Art) :=
  let st := initialStack sc o.depth o.relMatchLenNum o.relMatchLenDen txt fuel
  if expiredAt o.deadline st.2 then (([], none), []) else
  let out := run (mkCfg sc ts o.depth txt) fuel (o.deadline.map (· - st.2)) st.1 [] []
  ((out.1.map toCand, out.2), st.1.map (·.prod))

structure Parse (S : Type) where
  cands : List (Cand S)
  err : Option PyErr          -- exception that ended the candidate stream, if any
  subject : List Nat
  labels : List (List Nat)

/-- `ctparse_gen`: normalise, labels, search, subject, latent post-processing -/
def latentAll (ts : Ts) : List (Cand S) → List (Cand S) × Option PyErr
  | [] => ([], none)
  | c :: cs => match applyLatent ts c.res with
    | .error e => ([], some e)
    | .ok r => let t := latentAll ts cs; ({ c with res := r } :: t.1, t.2)

def ctparseGen (sc : Scorer S) (ts : Ts) (o : Opts) (raw : List Nat) (fuel : Nat) : Parse S :=
  let t := preprocess raw
  let labels := getLabels t
  let txt := stripLabels t
  let ((cands, err), stack) := searchCore sc ts o txt fuel
  -- words of the *unstripped* match text of every token of the initial stack (`match.captures()`)
  let tokenTexts := stack.flatMap fun p => p.map fun a => rawMatchText txt a
  let subject := subjectOf txt tokenTexts
  if o.latent then
    let (cs, e2) := latentAll ts cands
    { cands := cs, err := (match e2 with | some e => some e | none => err), subject := subject, labels := labels }
  else { cands := cands, err := err, subject := subject, labels := labels }

/-- the last maximum of the stream w.r.t. the stable sort by score (`parsed_list.sort(key=score)[-1]`) -/
def bestOf (lt : S → S → Bool) : List (Cand S) → Option (Cand S)
  | [] => none
  | c :: cs => match bestOf lt cs with
    | none => some c
    | some b => if lt b.score c.score then some c else some b

end QuickAdd

namespace QuickAdd
/-! ## synthetic scorers used by the correspondence (computed identically by the harness) -/
def strHash (s : String) : Nat := s.toList.foldl (fun h c => (h * 131 + c.toNat) % 1000000007) 7

def prodKey (p : List Art) (tr : List String) : String :=
  " ".intercalate (p.map Art.enc) ++ "|" ++ ",".intercalate tr

/-- injective-in-practice scorer: hash of the production (values, spans) and the trace -/
def hashScorer : Scorer Int where
  lt := fun a b => decide (a < b)
  score := fun _ p tr _ => strHash (prodKey p tr)
  final := fun _ p tr x => strHash (prodKey p tr ++ "#" ++ x.enc)

/-- `DummyScorer` -/
def constScorer : Scorer Int where
  lt := fun a b => decide (a < b)
  score := fun _ _ _ _ => 0
  final := fun _ _ _ _ => 0
end QuickAdd
