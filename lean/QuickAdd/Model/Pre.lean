import QuickAdd.Model.Regex
import QuickAdd.Gen.Classes
import QuickAdd.Gen.ReLiterals
/-!
# `_preprocess_string`, label extraction, subject (import-free)
`_repl1.sub(" ", txt).strip()` then `_repl2.sub("-", …).strip()`; both patterns are "one or more code points
of a class" (shape checked by the translator, `Gen.preShapeOk`), the classes are enumerated from the
compiled patterns.
-/
namespace QuickAdd

/-- replace every maximal run of `p`-code points by the single code point `r` -/
def collapseGo (p : Nat → Bool) (r : Nat) : Bool → List Nat → List Nat
  | _, [] => []
  | inRun, c :: cs =>
    if p c then (if inRun then collapseGo p r true cs else r :: collapseGo p r true cs)
    else c :: collapseGo p r false cs
def collapse (p : Nat → Bool) (r : Nat) (l : List Nat) : List Nat := collapseGo p r false l

/-- remove trailing `ws` code points -/
def dropTrailing (ws : Nat → Bool) : List Nat → List Nat
  | [] => []
  | c :: t => match dropTrailing ws t with
    | [] => if ws c then [] else [c]
    | t' => c :: t'

/-- `str.strip()` with an abstract whitespace predicate -/
def stripBy (ws : Nat → Bool) (l : List Nat) : List Nat := dropTrailing ws (l.dropWhile ws)

def preprocessWith (isSep isDash ws : Nat → Bool) (t : List Nat) : List Nat :=
  stripBy ws (collapse isDash 45 (stripBy ws (collapse isSep 32 t)))

def isSep (c : Nat) : Bool := inRanges Gen.sepClass c
def isDash (c : Nat) : Bool := inRanges Gen.dashClass c
def isPySpace (c : Nat) : Bool := inRanges Gen.pySpace c

def preprocess (t : List Nat) : List Nat := preprocessWith isSep isDash isPySpace t

/-! ### `re.findall` / `re.sub(…, "")` / `re.split` for patterns that cannot match the empty string -/

/-- leftmost non-overlapping matches `(start, end)`; a zero-length match is skipped (never happens for the
    shipped literals: `minLen > 0`) -/
def scanMatches (T : Tabs) (r : Rx) : Nat → Option Nat → List Nat → Nat → List (Nat × Nat)
  | 0, _, _, _ => []
  | _, _, [], _ => []
  | f+1, prev, x :: xs, pos =>
    match matchAt T r { prev := prev, rest := x :: xs, pos := pos } with
    | some (e, _) =>
      if e > pos then
        let k := e - pos
        let consumed := (x :: xs).take k
        (pos, e) :: scanMatches T r f consumed.getLast? ((x :: xs).drop k) e
      else scanMatches T r f (some x) xs (pos + 1)
    | none => scanMatches T r f (some x) xs (pos + 1)

def reMatches (r : Rx) (s : List Nat) : List (Nat × Nat) := scanMatches Gen.reTabs r (s.length + 1) none s 0

def slice (s : List Nat) (a b : Nat) : List Nat := (s.drop a).take (b - a)

/-- the pieces between the matches (`re.split`), and their concatenation (`re.sub(…, "")`) -/
def piecesGo (s : List Nat) : Nat → List (Nat × Nat) → List (List Nat)
  | cur, [] => [s.drop cur]
  | cur, (a, b) :: ms => slice s cur a :: piecesGo s b ms
def reSplit (r : Rx) (s : List Nat) : List (List Nat) := piecesGo s 0 (reMatches r s)
def reRemove (r : Rx) (s : List Nat) : List Nat := (reSplit r s).flatten
def reFindall (r : Rx) (s : List Nat) : List (List Nat) := (reMatches r s).map fun (a, b) => slice s a b

def reLit (fn attr : String) : Rx :=
  match Gen.reLiterals.find? fun e => e.1 == fn && e.2.1 == attr with
  | some e => e.2.2.1
  | none => .cls false []          -- matches nothing: a missing literal shows up as a broken correspondence

/-- `_get_labels` -/
def getLabels (txt : List Nat) : List (List Nat) :=
  (reFindall (reLit "_get_labels" "findall") txt).map fun l => l.filter (· != 35)

/-- `re.sub('#[a-zA-Z0-9_-]+','', txt).strip()` of `_ctparse`, then (repaired, DESIGN §8 D31) the runs of blanks a label cut
    out of the middle leaves behind are collapsed again: `re.sub(' +', ' ', …)` -/
def stripLabels (txt : List Nat) : List Nat :=
  collapse (fun c => c == 32) 32 (stripBy isPySpace (reRemove (reLit "_ctparse" "sub") txt))

/-- `str.split()` : maximal runs of non-whitespace -/
def splitWsGo : List Nat → List Nat → List (List Nat)
  | [], cur => if cur.isEmpty then [] else [cur.reverse]
  | c :: cs, cur =>
    if isPySpace c then (if cur.isEmpty then splitWsGo cs [] else cur.reverse :: splitWsGo cs [])
    else splitWsGo cs (c :: cur)
def splitWs (s : List Nat) : List (List Nat) := splitWsGo s []

def joinBlank : List (List Nat) → List Nat
  | [] => []
  | [w] => w
  | w :: ws => w ++ 32 :: joinBlank ws

/-- the words of the token texts, split exactly like the words of the text (repaired, DESIGN §8 D30: they used to be split
    on blanks only, so `14` of the match `14-12-2020` was not recognised as used) -/
def usedWords (tokenTexts : List (List Nat)) : List (List Nat) :=
  tokenTexts.flatMap fun t => (reSplit (reLit "_ctparse" "split") t).filter fun w => !w.isEmpty

/-- subject of `_ctparse`: words of the label-free text (split on `[\s-]+`) that are not a word (same splitting) of any
    token text of the initial stack -/
def subjectOf (txt : List Nat) (tokenTexts : List (List Nat)) : List Nat :=
  let used := usedWords tokenTexts
  let raw := reSplit (reLit "_ctparse" "split") txt
  joinBlank (raw.filter fun w => !used.contains w)

/-- subject and labels on the no-match path of `ctparse()` (repaired: same normalisation as the match path) -/
def noMatchSubject (rawTxt : List Nat) : List Nat × List (List Nat) :=
  let t := preprocess rawTxt
  let labels := getLabels t
  let t := stripBy isPySpace (reRemove (reLit "ctparse" "sub") t)
  (joinBlank (reSplit (reLit "ctparse" "split") t), labels)

end QuickAdd
